//! Independent reference model written from the UTS #35 EBNF.
//!
//! Deliberately tiny: plain byte loops over fixed-size arrays, no `tinystr`, no
//! code from /repo.  Everything here runs inside the same CBMC query as the
//! implementation, so it is also the oracle the solver compares against.
//!
//!   unicode_language_subtag = alpha{2,3} | alpha{5,8}
//!   unicode_script_subtag   = alpha{4}
//!   unicode_region_subtag   = alpha{2} | digit{3}
//!   unicode_variant_subtag  = alphanum{5,8} | digit alphanum{3}
//!   sep                     = [-_]

#![allow(clippy::all)]

pub const TMAX: usize = 9; // bytes carried per symbolic subtag (9 = "over-long" class)

pub fn is_alpha(c: u8) -> bool {
    (c >= b'a' && c <= b'z') || (c >= b'A' && c <= b'Z')
}
pub fn is_digit(c: u8) -> bool {
    c >= b'0' && c <= b'9'
}
pub fn is_alnum(c: u8) -> bool {
    is_alpha(c) || is_digit(c)
}
pub fn lower(c: u8) -> u8 {
    if c >= b'A' && c <= b'Z' {
        c + 32
    } else {
        c
    }
}
pub fn upper(c: u8) -> u8 {
    if c >= b'a' && c <= b'z' {
        c - 32
    } else {
        c
    }
}
pub fn is_sep(c: u8) -> bool {
    c == b'-' || c == b'_'
}

pub fn all_alpha(s: &[u8]) -> bool {
    let mut i = 0;
    while i < s.len() {
        if !is_alpha(s[i]) {
            return false;
        }
        i += 1;
    }
    true
}
pub fn all_digit(s: &[u8]) -> bool {
    let mut i = 0;
    while i < s.len() {
        if !is_digit(s[i]) {
            return false;
        }
        i += 1;
    }
    true
}
pub fn all_alnum(s: &[u8]) -> bool {
    let mut i = 0;
    while i < s.len() {
        if !is_alnum(s[i]) {
            return false;
        }
        i += 1;
    }
    true
}

pub fn is_language(s: &[u8]) -> bool {
    let n = s.len();
    ((n >= 2 && n <= 3) || (n >= 5 && n <= 8)) && all_alpha(s)
}
pub fn is_script(s: &[u8]) -> bool {
    s.len() == 4 && all_alpha(s)
}
pub fn is_region(s: &[u8]) -> bool {
    (s.len() == 2 && all_alpha(s)) || (s.len() == 3 && all_digit(s))
}
pub fn is_variant(s: &[u8]) -> bool {
    let n = s.len();
    (n >= 5 && n <= 8 && all_alnum(s)) || (n == 4 && is_digit(s[0]) && all_alnum(s))
}

// ---- unicode locale extension productions -------------------------------
//   ukey   = alphanum alpha      uvalue/type subtag = alphanum{3,8}
//   attribute = alphanum{3,8}
//   tkey   = alpha digit         tvalue subtag = alphanum{3,8}
//   private-use subtag = alphanum{1,8}
pub fn is_ukey(s: &[u8]) -> bool {
    s.len() == 2 && is_alnum(s[0]) && is_alpha(s[1])
}
pub fn is_utype(s: &[u8]) -> bool {
    s.len() >= 3 && s.len() <= 8 && all_alnum(s)
}
pub fn is_attr(s: &[u8]) -> bool {
    is_utype(s)
}
pub fn is_tkey(s: &[u8]) -> bool {
    s.len() == 2 && is_alpha(s[0]) && is_digit(s[1])
}
pub fn is_tvalue(s: &[u8]) -> bool {
    is_utype(s)
}
pub fn is_private(s: &[u8]) -> bool {
    s.len() >= 1 && s.len() <= 8 && all_alnum(s)
}

/// canonical text of a subtag, NUL padded (the padding is what makes two
/// texts of different length compare unequal).
pub type Txt = [u8; 8];
pub const NOTXT: Txt = [0; 8];

pub fn lower8(s: &[u8]) -> Txt {
    let mut o = [0u8; 8];
    let mut i = 0;
    while i < s.len() && i < 8 {
        o[i] = lower(s[i]);
        i += 1;
    }
    o
}
pub fn upper8(s: &[u8]) -> Txt {
    let mut o = [0u8; 8];
    let mut i = 0;
    while i < s.len() && i < 8 {
        o[i] = upper(s[i]);
        i += 1;
    }
    o
}
pub fn title8(s: &[u8]) -> Txt {
    let mut o = lower8(s);
    o[0] = upper(o[0]);
    o
}
pub fn txt_len(t: &Txt) -> usize {
    let mut i = 0;
    while i < 8 && t[i] != 0 {
        i += 1;
    }
    i
}
/// `got` (a str's bytes) equals the NUL-padded text `want`
pub fn same_text(got: &[u8], want: &Txt) -> bool {
    if got.len() > 8 {
        return false;
    }
    let mut i = 0;
    while i < 8 {
        let g = if i < got.len() { got[i] } else { 0 };
        if g != want[i] {
            return false;
        }
        i += 1;
    }
    true
}
/// byte-wise lexicographic order on padded texts (this is the order of the
/// canonical strings as well, since NUL < every subtag byte)
pub fn txt_cmp(a: &Txt, b: &Txt) -> i8 {
    // big-endian integer order == byte-wise lexicographic order
    let x = u64::from_be_bytes(*a);
    let y = u64::from_be_bytes(*b);
    if x < y {
        -1
    } else if x > y {
        1
    } else {
        0
    }
}
pub fn txt_eq(a: &Txt, b: &Txt) -> bool {
    txt_cmp(a, b) == 0
}

pub const UND: Txt = [b'u', b'n', b'd', 0, 0, 0, 0, 0];
pub const TRUE: Txt = [b't', b'r', b'u', b'e', 0, 0, 0, 0];

// ---- language identifier, token level --------------------------------------

pub const VMAX: usize = 4;

#[derive(Clone, Copy)]
pub struct LangIdModel {
    /// canonical language text; `und` is stored as UND here, `lang_und` says so
    pub lang: Txt,
    pub lang_und: bool,
    pub script: Option<Txt>,
    pub region: Option<Txt>,
    /// sorted, unique
    pub variants: [Txt; VMAX],
    pub nvariants: usize,
}

#[derive(Clone, Copy, PartialEq, Eq)]
pub enum LangIdErr {
    InvalidLanguage,
    InvalidSubtag,
}

pub fn insert_sorted_unique(arr: &mut [Txt; VMAX], n: &mut usize, v: Txt) {
    // position of first element >= v
    let mut i = 0;
    while i < *n && txt_cmp(&arr[i], &v) < 0 {
        i += 1;
    }
    if i < *n && txt_eq(&arr[i], &v) {
        return;
    }
    let mut j = *n;
    while j > i {
        arr[j] = arr[j - 1];
        j -= 1;
    }
    arr[i] = v;
    *n += 1;
}

/// Everything the grammar needs to know about one subtag, computed in a single
/// fixed 9-iteration pass (cheap for the solver: no symbolic-length slices).
#[derive(Clone, Copy)]
pub struct Info {
    pub n: usize,
    pub alpha: bool,
    pub digit: bool,
    pub alnum: bool,
    pub d0: bool,
    pub a0: bool,
    pub a1: bool,
    pub d1: bool,
    pub an0: bool,
    /// lower-cased first 8 bytes, NUL padded
    pub low: Txt,
}

pub fn info(t: &super::sym::Tok) -> Info {
    let mut r = Info { n: t.n, alpha: true, digit: true, alnum: true, d0: false, a0: false, a1: false, d1: false, an0: false, low: NOTXT };
    let mut j = 0;
    while j < TMAX {
        if j < t.n {
            let c = t.b[j];
            if !is_alpha(c) {
                r.alpha = false;
            }
            if !is_digit(c) {
                r.digit = false;
            }
            if !is_alnum(c) {
                r.alnum = false;
            }
            if j < 8 {
                r.low[j] = lower(c);
            }
        }
        j += 1;
    }
    if t.n >= 1 {
        r.d0 = is_digit(t.b[0]);
        r.a0 = is_alpha(t.b[0]);
        r.an0 = is_alnum(t.b[0]);
    }
    if t.n >= 2 {
        r.a1 = is_alpha(t.b[1]);
        r.d1 = is_digit(t.b[1]);
    }
    r
}

impl Info {
    pub fn is_language(&self) -> bool {
        ((self.n >= 2 && self.n <= 3) || (self.n >= 5 && self.n <= 8)) && self.alpha
    }
    pub fn is_script(&self) -> bool {
        self.n == 4 && self.alpha
    }
    pub fn is_region(&self) -> bool {
        (self.n == 2 && self.alpha) || (self.n == 3 && self.digit)
    }
    pub fn is_variant(&self) -> bool {
        (self.n >= 5 && self.n <= 8 && self.alnum) || (self.n == 4 && self.d0 && self.alnum)
    }
    pub fn is_ukey(&self) -> bool {
        self.n == 2 && self.an0 && self.a1
    }
    pub fn is_utype(&self) -> bool {
        self.n >= 3 && self.n <= 8 && self.alnum
    }
    pub fn is_tkey(&self) -> bool {
        self.n == 2 && self.a0 && self.d1
    }
    pub fn is_private(&self) -> bool {
        self.n >= 1 && self.n <= 8 && self.alnum
    }
    pub fn lower(&self) -> Txt {
        self.low
    }
    pub fn upper(&self) -> Txt {
        let mut o = self.low;
        let mut i = 0;
        while i < 8 {
            o[i] = upper(o[i]);
            i += 1;
        }
        o
    }
    pub fn title(&self) -> Txt {
        let mut o = self.low;
        o[0] = upper(o[0]);
        o
    }
}

pub fn infos<const K: usize>(toks: &[super::sym::Tok; K]) -> [Info; K] {
    let mut a = [Info { n: 0, alpha: false, digit: false, alnum: false, d0: false, a0: false, a1: false, d1: false, an0: false, low: NOTXT }; K];
    let mut i = 0;
    while i < K {
        a[i] = info(&toks[i]);
        i += 1;
    }
    a
}

/// Parse `toks[..k]` as  language (script)? (region)? (variant)*.
/// `consumed` = number of tokens that belong to the language identifier when
/// trailing material is allowed (the locale case); with `allow_ext == false`
/// anything left over is an error.
pub fn parse_langid<const K: usize>(
    toks: &[super::sym::Tok; K],
    k: usize,
    allow_ext: bool,
) -> (Result<LangIdModel, LangIdErr>, usize) {
    let inf = infos(toks);
    parse_langid_info(&inf, 0, k, allow_ext)
}

/// as above on pre-computed token infos, starting at token `from`
pub fn parse_langid_info<const K: usize>(
    inf: &[Info; K],
    from: usize,
    k: usize,
    allow_ext: bool,
) -> (Result<LangIdModel, LangIdErr>, usize) {
    let mut m = LangIdModel {
        lang: UND,
        lang_und: true,
        script: None,
        region: None,
        variants: [NOTXT; VMAX],
        nvariants: 0,
    };
    if from >= k {
        return (Ok(m), from);
    }
    if !inf[from].is_language() {
        return (Err(LangIdErr::InvalidLanguage), from);
    }
    m.lang = inf[from].lower();
    m.lang_und = txt_eq(&m.lang, &UND);
    // the position automaton is unrolled over the (concrete) token positions so that
    // no array is indexed with a symbolic value
    let mut stage = 1; // 1: script/region/variant may follow, 2: region/variant, 3: variant, 4: stopped
    let mut consumed = from + 1;
    let mut i = from + 1;
    while i < k {
        let t = &inf[i];
        if stage == 1 && t.is_script() {
            m.script = Some(t.title());
            stage = 2;
            consumed = i + 1;
        } else if stage <= 2 && t.is_region() {
            m.region = Some(t.upper());
            stage = 3;
            consumed = i + 1;
        } else if stage <= 3 && t.is_variant() {
            if m.nvariants < VMAX {
                insert_sorted_unique(&mut m.variants, &mut m.nvariants, t.lower());
            }
            stage = 3;
            consumed = i + 1;
        } else {
            stage = 4;
        }
        i += 1;
    }
    if consumed < k && !allow_ext {
        return (Err(LangIdErr::InvalidSubtag), consumed);
    }
    (Ok(m), consumed)
}

/// canonical serialisation of a language identifier model into `out`, returns length
pub fn write_txt(out: &mut [u8], pos: &mut usize, t: &Txt) {
    let mut i = 0;
    while i < 8 && t[i] != 0 {
        if *pos < out.len() {
            out[*pos] = t[i];
        }
        *pos += 1;
        i += 1;
    }
}
pub fn write_byte(out: &mut [u8], pos: &mut usize, b: u8) {
    if *pos < out.len() {
        out[*pos] = b;
    }
    *pos += 1;
}
pub fn write_langid(out: &mut [u8], pos: &mut usize, m: &LangIdModel) {
    write_txt(out, pos, &m.lang);
    if let Some(s) = &m.script {
        write_byte(out, pos, b'-');
        write_txt(out, pos, s);
    }
    if let Some(r) = &m.region {
        write_byte(out, pos, b'-');
        write_txt(out, pos, r);
    }
    let mut i = 0;
    while i < m.nvariants {
        write_byte(out, pos, b'-');
        write_txt(out, pos, &m.variants[i]);
        i += 1;
    }
}

/// Strict recogniser for a *canonical* language identifier string (used to
/// re-check serialiser output): only `-`, canonical case, variants strictly
/// increasing.
pub fn is_canonical_langid(s: &[u8]) -> bool {
    // split on '-'
    let mut start = 0;
    let mut idx = 0; // subtag index
    let mut stage = 0; // 0 = expect language, 1 = after language, 2 = after script, 3 = after region/variants
    let mut prev_variant: Txt = NOTXT;
    let mut have_prev = false;
    let mut i = 0;
    while i <= s.len() {
        if i == s.len() || s[i] == b'-' {
            let t = &s[start..i];
            if idx == 0 {
                if !is_language(t) || !same_text(t, &lower8(t)) {
                    return false;
                }
                stage = 1;
            } else if stage == 1 && is_script(t) {
                if !same_text(t, &title8(t)) {
                    return false;
                }
                stage = 2;
            } else if stage <= 2 && is_region(t) {
                if !same_text(t, &upper8(t)) {
                    return false;
                }
                stage = 3;
            } else if is_variant(t) {
                let v = lower8(t);
                if !same_text(t, &v) {
                    return false;
                }
                if have_prev && txt_cmp(&prev_variant, &v) >= 0 {
                    return false;
                }
                prev_variant = v;
                have_prev = true;
                stage = 3;
            } else {
                return false;
            }
            idx += 1;
            start = i + 1;
        }
        i += 1;
    }
    true
}

/// the model's texts are well-formed subtags of their class, in canonical case, variants strictly increasing
pub fn model_is_canonical(m: &LangIdModel) -> bool {
    let l = &m.lang[..txt_len(&m.lang)];
    if !is_language(l) || !same_text(l, &lower8(l)) || m.lang_und != txt_eq(&m.lang, &UND) {
        return false;
    }
    if let Some(s) = &m.script {
        let t = &s[..txt_len(s)];
        if !is_script(t) || !same_text(t, &title8(t)) {
            return false;
        }
    }
    if let Some(r) = &m.region {
        let t = &r[..txt_len(r)];
        if !is_region(t) || !same_text(t, &upper8(t)) {
            return false;
        }
    }
    let mut i = 0;
    while i < VMAX {
        if i < m.nvariants {
            let v = &m.variants[i];
            let t = &v[..txt_len(v)];
            if !is_variant(t) || !same_text(t, &lower8(t)) {
                return false;
            }
            if i > 0 && txt_cmp(&m.variants[i - 1], v) >= 0 {
                return false;
            }
        }
        i += 1;
    }
    true
}

// ---- value-level formulas ---------------------------------------------------

pub fn opt_txt_eq(a: &Option<Txt>, b: &Option<Txt>) -> bool {
    match (a, b) {
        (None, None) => true,
        (Some(x), Some(y)) => txt_eq(x, y),
        _ => false,
    }
}
/// absent sorts first
pub fn opt_txt_cmp(a: &Option<Txt>, b: &Option<Txt>) -> i8 {
    match (a, b) {
        (None, None) => 0,
        (None, Some(_)) => -1,
        (Some(_), None) => 1,
        (Some(x), Some(y)) => txt_cmp(x, y),
    }
}
pub fn variants_eq(a: &LangIdModel, b: &LangIdModel) -> bool {
    if a.nvariants != b.nvariants {
        return false;
    }
    let mut i = 0;
    while i < VMAX {
        if i < a.nvariants && !txt_eq(&a.variants[i], &b.variants[i]) {
            return false;
        }
        i += 1;
    }
    true
}
/// absent list first, then lexicographic by element, shorter prefix first
pub fn variants_cmp(a: &LangIdModel, b: &LangIdModel) -> i8 {
    if a.nvariants == 0 || b.nvariants == 0 {
        return if a.nvariants == b.nvariants {
            0
        } else if a.nvariants == 0 {
            -1
        } else {
            1
        };
    }
    let mut i = 0;
    while i < VMAX {
        if i >= a.nvariants || i >= b.nvariants {
            break;
        }
        let c = txt_cmp(&a.variants[i], &b.variants[i]);
        if c != 0 {
            return c;
        }
        i += 1;
    }
    if a.nvariants < b.nvariants {
        -1
    } else if a.nvariants > b.nvariants {
        1
    } else {
        0
    }
}
pub fn langid_eq(a: &LangIdModel, b: &LangIdModel) -> bool {
    txt_eq(&a.lang, &b.lang) && opt_txt_eq(&a.script, &b.script) && opt_txt_eq(&a.region, &b.region) && variants_eq(a, b)
}
/// language (und = absent first), script, region, variants
pub fn langid_cmp(a: &LangIdModel, b: &LangIdModel) -> i8 {
    let la = if a.lang_und { None } else { Some(a.lang) };
    let lb = if b.lang_und { None } else { Some(b.lang) };
    let c = opt_txt_cmp(&la, &lb);
    if c != 0 {
        return c;
    }
    let c = opt_txt_cmp(&a.script, &b.script);
    if c != 0 {
        return c;
    }
    let c = opt_txt_cmp(&a.region, &b.region);
    if c != 0 {
        return c;
    }
    variants_cmp(a, b)
}
/// UTS #35-style range matching: a field matches when equal or when the side used as a range lacks it
pub fn langid_matches(a: &LangIdModel, b: &LangIdModel, ra: bool, rb: bool) -> bool {
    let f = |ea: bool, eb: bool, eq: bool| (ra && ea) || (rb && eb) || eq;
    f(a.lang_und, b.lang_und, txt_eq(&a.lang, &b.lang))
        && f(a.script.is_none(), b.script.is_none(), opt_txt_eq(&a.script, &b.script))
        && f(a.region.is_none(), b.region.is_none(), opt_txt_eq(&a.region, &b.region))
        && f(a.nvariants == 0, b.nvariants == 0, variants_eq(a, b))
}

// ---- byte level: split on '-' / '_' then the token-level recogniser ---------------------------

/// reference split of `buf[..n]` (n <= L) into at most L+1 subtags
pub fn split_ref<const L: usize, const K: usize>(buf: &[u8; L], n: usize) -> ([super::sym::Tok; K], usize) {
    let mut toks = [super::sym::Tok::lit(b""); K];
    let mut k = 0usize;
    let mut cur = 0usize;
    let mut i = 0;
    while i < L {
        if i < n {
            if is_sep(buf[i]) {
                k += 1;
                cur = 0;
            } else {
                // K == L + 1 subtags can never overflow; each subtag is at most L <= 9 bytes
                toks[k].b[cur] = buf[i];
                cur += 1;
                toks[k].n = cur;
            }
        }
        i += 1;
    }
    (toks, k + 1)
}
