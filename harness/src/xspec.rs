//! Reference model of the three extension bodies (token level), written from UTS #35:
//!   -u- : attribute* (ukey type*)*      attribute/type = alphanum{3,8}, ukey = alphanum alpha
//!   -t- : tlang? (tkey tvalue+)*        tkey = alpha digit, tvalue = alphanum{3,8}
//!   -x- : alphanum{1,8}+
//! plus the library's documented normalisations (lower case, attributes sorted+unique,
//! keywords/tfields keyed maps sorted by key, the value `true` dropped, private tags sorted).
//! A body ends at the first subtag that cannot continue it; what the *dispatcher* must do with
//! that subtag (accept a singleton t/u/x, reject everything else) is a separate clause.
use crate::spec::{self, Info, LangIdModel, Txt, NOTXT, TRUE};

pub const AMAX: usize = 3; // attributes / private tags carried
pub const KMAX: usize = 2; // keywords / tfields carried
pub const TYMAX: usize = 3; // types / values per key carried

#[derive(Clone, Copy)]
pub struct KV {
    pub keys: [Txt; KMAX],
    pub nkeys: usize,
    pub vals: [[Txt; TYMAX]; KMAX],
    pub nvals: [usize; KMAX],
}
impl KV {
    pub const fn new() -> KV {
        KV { keys: [NOTXT; KMAX], nkeys: 0, vals: [[NOTXT; TYMAX]; KMAX], nvals: [0; KMAX] }
    }
    /// insert-or-replace, keeping keys sorted (a map)
    pub fn start_key(&mut self, key: Txt) -> usize {
        // existing key: values restart (last occurrence wins; duplicate keys are outside C03 anyway)
        let mut i = 0;
        while i < KMAX {
            if i < self.nkeys && spec::txt_eq(&self.keys[i], &key) {
                self.nvals[i] = 0;
                return i;
            }
            i += 1;
        }
        if self.nkeys >= KMAX {
            return KMAX; // over the carried bound: callers assume this away
        }
        // sorted position (KMAX == 2: either before or after the one existing key)
        if self.nkeys == 1 && spec::txt_cmp(&key, &self.keys[0]) < 0 {
            self.keys[1] = self.keys[0];
            self.vals[1] = self.vals[0];
            self.nvals[1] = self.nvals[0];
            self.keys[0] = key;
            self.nvals[0] = 0;
            self.nkeys = 2;
            return 0;
        }
        let at = self.nkeys;
        self.keys[at] = key;
        self.nvals[at] = 0;
        self.nkeys += 1;
        at
    }
    pub fn add_val(&mut self, at: usize, v: Txt) -> bool {
        if spec::txt_eq(&v, &TRUE) {
            return true; // `true` is the default and is not stored
        }
        if at >= KMAX || self.nvals[at] >= TYMAX {
            return false;
        }
        let n = self.nvals[at];
        self.vals[at][n] = v;
        self.nvals[at] = n + 1;
        true
    }
    /// index of the key slot holding `key` now (slots move when a smaller key arrives)
    pub fn slot_of(&self, key: &Txt) -> usize {
        let mut i = 0;
        while i < KMAX {
            if i < self.nkeys && spec::txt_eq(&self.keys[i], key) {
                return i;
            }
            i += 1;
        }
        KMAX
    }
}

#[derive(Clone, Copy)]
pub struct UModel {
    pub attrs: [Txt; spec::VMAX],
    pub nattrs: usize,
    pub kw: KV,
}

/// -u- body starting at token `from`.  Returns (model or Err, index of the first token not consumed, over_bound)
pub fn parse_u<const K: usize>(inf: &[Info; K], from: usize) -> (Result<UModel, ()>, usize, bool) {
    let mut m = UModel { attrs: [NOTXT; spec::VMAX], nattrs: 0, kw: KV::new() };
    let mut cur: Txt = NOTXT;
    let mut have_key = false;
    let mut over = false;
    let mut stopped = false;
    let mut end = K;
    let mut i = from;
    while i < K {
        if !stopped {
            let t = &inf[i];
            if t.n == 2 {
                if !t.is_ukey() {
                    return (Err(()), i, over);
                }
                cur = t.lower();
                have_key = true;
                if m.kw.start_key(cur) >= KMAX {
                    over = true;
                }
            } else if have_key && t.is_utype() {
                let at = m.kw.slot_of(&cur);
                if !m.kw.add_val(at, t.lower()) {
                    over = true;
                }
            } else if !have_key && t.is_utype() {
                if m.nattrs < spec::VMAX {
                    spec::insert_sorted_unique(&mut m.attrs, &mut m.nattrs, t.lower());
                } else {
                    over = true;
                }
            } else {
                stopped = true;
                end = i;
            }
        }
        i += 1;
    }
    (Ok(m), end, over)
}

#[derive(Clone, Copy)]
pub struct TModel {
    pub tlang: Option<LangIdModel>,
    pub fields: KV,
}

pub fn parse_t<const K: usize>(inf: &[Info; K], from: usize) -> (Result<TModel, ()>, usize, bool) {
    let mut m = TModel { tlang: None, fields: KV::new() };
    let mut i = from;
    let mut over = false;
    if i < K && inf[i].is_language() {
        let (r, consumed) = spec::parse_langid_info(inf, i, K, true);
        match r {
            Ok(l) => m.tlang = Some(l),
            Err(_) => return (Err(()), i, over),
        }
        i = consumed;
    }
    let start = i;
    let mut cur: Txt = NOTXT;
    let mut have_key = false;
    let mut stopped = false;
    let mut end = K;
    let mut j = from;
    while j < K {
        if j >= start && !stopped {
            let t = &inf[j];
            if t.is_tkey() {
                cur = t.lower();
                have_key = true;
                if m.fields.start_key(cur) >= KMAX {
                    over = true;
                }
            } else if have_key && t.is_utype() {
                let at = m.fields.slot_of(&cur);
                if !m.fields.add_val(at, t.lower()) {
                    over = true;
                }
            } else {
                stopped = true;
                end = j;
            }
        }
        j += 1;
    }
    (Ok(m), end, over)
}

/// -x- takes everything to the end; every subtag must be alphanum{1,8}
#[derive(Clone, Copy)]
pub struct PModel {
    pub tags: [Txt; spec::VMAX],
    pub ntags: usize,
}
pub fn insert_sorted_multi(arr: &mut [Txt; spec::VMAX], n: &mut usize, v: Txt) {
    let mut i = 0;
    while i < *n && spec::txt_cmp(&arr[i], &v) <= 0 {
        i += 1;
    }
    let mut j = *n;
    while j > i {
        arr[j] = arr[j - 1];
        j -= 1;
    }
    arr[i] = v;
    *n += 1;
}
pub fn parse_x<const K: usize>(inf: &[Info; K], from: usize) -> Result<PModel, ()> {
    let mut m = PModel { tags: [NOTXT; spec::VMAX], ntags: 0 };
    let mut i = from;
    while i < K {
        if !inf[i].is_private() {
            return Err(());
        }
        if m.ntags < spec::VMAX {
            insert_sorted_multi(&mut m.tags, &mut m.ntags, inf[i].lower());
        }
        i += 1;
    }
    Ok(m)
}

/// what the dispatcher must do with the subtag that follows the language identifier or an
/// extension body
#[derive(Clone, Copy, PartialEq, Eq)]
pub enum Disp {
    U,
    T,
    X,
    /// empty subtag: may be skipped or rejected (property C03, last sentence)
    Empty,
    /// a well-formed singleton other than t/u/x: 'other' extensions may be rejected or supported
    Other,
    /// anything else (multi-character, non-alphanumeric): must be rejected
    Reject,
}
pub fn dispatch(t: &Info, first: u8) -> Disp {
    if t.n == 0 {
        return Disp::Empty;
    }
    if t.n != 1 {
        return Disp::Reject;
    }
    let c = spec::lower(first);
    if c == b'u' {
        Disp::U
    } else if c == b't' {
        Disp::T
    } else if c == b'x' {
        Disp::X
    } else if spec::is_alnum(c) {
        Disp::Other
    } else {
        Disp::Reject
    }
}

// ---- the whole extension sequence (what follows the language identifier) ------------------

#[derive(Clone, Copy, PartialEq, Eq)]
pub enum Zone {
    /// well-formed: must be accepted with exactly `u`, `t`, `p`
    MustAccept,
    /// must be rejected (malformed / misplaced subtag, multi-character or repeated singleton, second tlang)
    MustReject,
    /// ill-formed only through emptiness, a tkey without value, or an 'other' singleton: either answer
    Either,
}
#[derive(Clone, Copy)]
pub struct MapModel {
    pub zone: Zone,
    pub u: UModel,
    pub t: TModel,
    pub p: PModel,
    pub over: bool,
}

/// any tfield key without a value (`t-h0`): ill-formed by the EBNF (tfield = tkey tvalue+); either zone
fn t_has_empty_field(m: &TModel) -> bool {
    let mut i = 0;
    let mut e = false;
    while i < KMAX {
        if i < m.fields.nkeys && m.fields.nvals[i] == 0 {
            e = true;
        }
        i += 1;
    }
    e
}

pub fn parse_map<const K: usize>(inf: &[Info; K], toks: &[crate::sym::Tok; K]) -> MapModel {
    let mut r = MapModel {
        zone: Zone::MustAccept,
        u: UModel { attrs: [NOTXT; spec::VMAX], nattrs: 0, kw: KV::new() },
        t: TModel { tlang: None, fields: KV::new() },
        p: PModel { tags: [NOTXT; spec::VMAX], ntags: 0 },
        over: false,
    };
    let mut seen_u = false;
    let mut seen_t = false;
    let mut either = false;
    let mut next = 0; // index of the next subtag the dispatcher looks at
    let mut done = false;
    let mut i = 0;
    while i < K {
        if !done && i == next {
            match dispatch(&inf[i], toks[i].b[0]) {
                Disp::U => {
                    if seen_u {
                        r.zone = Zone::MustReject;
                        return r;
                    }
                    seen_u = true;
                    let (m, end, over) = parse_u(inf, i + 1);
                    r.over |= over;
                    match m {
                        Ok(m) => r.u = m,
                        Err(()) => {
                            r.zone = Zone::MustReject;
                            return r;
                        }
                    }
                    if end == i + 1 {
                        either = true;
                    }
                    next = end;
                }
                Disp::T => {
                    if seen_t {
                        r.zone = Zone::MustReject;
                        return r;
                    }
                    seen_t = true;
                    let (m, end, over) = parse_t(inf, i + 1);
                    r.over |= over;
                    match m {
                        Ok(m) => {
                            if t_has_empty_field(&m) {
                                either = true;
                            }
                            r.t = m;
                        }
                        Err(()) => {
                            r.zone = Zone::MustReject;
                            return r;
                        }
                    }
                    if end == i + 1 {
                        either = true;
                    }
                    next = end;
                }
                Disp::X => {
                    match parse_x(inf, i + 1) {
                        Ok(m) => r.p = m,
                        Err(()) => {
                            r.zone = Zone::MustReject;
                            return r;
                        }
                    }
                    if i + 1 == K {
                        either = true;
                    }
                    if K - (i + 1) > spec::VMAX {
                        r.over = true;
                    }
                    done = true;
                }
                Disp::Empty => {
                    either = true;
                    next = i + 1;
                }
                Disp::Other => {
                    r.zone = Zone::Either;
                    return r;
                }
                Disp::Reject => {
                    r.zone = Zone::MustReject;
                    return r;
                }
            }
        }
        i += 1;
    }
    if either {
        r.zone = Zone::Either;
    }
    r
}

// ---- reference serialisation of the extension models ("-t..." "-u..." "-x...") -------------
use crate::spec::{write_byte, write_langid, write_txt};

fn write_kv(out: &mut [u8], pos: &mut usize, kv: &KV) {
    let mut i = 0;
    while i < KMAX {
        if i < kv.nkeys {
            write_byte(out, pos, b'-');
            write_txt(out, pos, &kv.keys[i]);
            let mut j = 0;
            while j < TYMAX {
                if j < kv.nvals[i] {
                    write_byte(out, pos, b'-');
                    write_txt(out, pos, &kv.vals[i][j]);
                }
                j += 1;
            }
        }
        i += 1;
    }
}
pub fn write_u(out: &mut [u8], pos: &mut usize, m: &UModel) {
    if m.nattrs == 0 && m.kw.nkeys == 0 {
        return;
    }
    write_byte(out, pos, b'-');
    write_byte(out, pos, b'u');
    let mut i = 0;
    while i < spec::VMAX {
        if i < m.nattrs {
            write_byte(out, pos, b'-');
            write_txt(out, pos, &m.attrs[i]);
        }
        i += 1;
    }
    write_kv(out, pos, &m.kw);
}
pub fn write_t(out: &mut [u8], pos: &mut usize, m: &TModel) {
    if m.tlang.is_none() && m.fields.nkeys == 0 {
        return;
    }
    write_byte(out, pos, b'-');
    write_byte(out, pos, b't');
    if let Some(l) = &m.tlang {
        write_byte(out, pos, b'-');
        write_langid(out, pos, l);
    }
    write_kv(out, pos, &m.fields);
}
pub fn write_p(out: &mut [u8], pos: &mut usize, m: &PModel) {
    if m.ntags == 0 {
        return;
    }
    write_byte(out, pos, b'-');
    write_byte(out, pos, b'x');
    let mut i = 0;
    while i < spec::VMAX {
        if i < m.ntags {
            write_byte(out, pos, b'-');
            write_txt(out, pos, &m.tags[i]);
        }
        i += 1;
    }
}
