//! C17 — decomposition and raw-representation round trips.
use crate::h;
use crate::k;
use crate::spec;
use crate::sym::{self, Tok};
use unic_langid_impl::subtags::{Language, Region, Script, Variant};
use unic_langid_impl::LanguageIdentifier;

proofs! {

// ---- integer form <-> subtag, all valid subtags (every T9 the checked constructor accepts) ----

[] fn c17_language_raw() {
    let (x, tx) = sym::any_language();
    let raw: Option<u64> = x.into();
    let raw_ref: Option<u64> = (&x).into();
    assert!(raw == raw_ref);
    cover!(raw.is_none());
    cover!(raw.is_some());
    match raw {
        None => assert!(x.is_empty() && spec::txt_eq(&tx, &spec::UND), "und <-> None"),
        Some(v) => {
            assert!(v == u64::from_le_bytes(tx), "integer form is the little-endian packing of the NUL-padded canonical text");
            let y = unsafe { Language::from_raw_unchecked(v) };
            assert!(y == x, "from_raw_unchecked(into()) gives back an equal subtag");
            assert!(spec::same_text(y.as_str().as_bytes(), &tx), "with intact text");
        }
    }
    // injectivity: distinct subtags have distinct integer forms
    let (z, tz) = sym::any_language();
    let rz: Option<u64> = z.into();
    assert!((raw == rz) == (x == z));
    assert!((x == z) == spec::txt_eq(&tx, &tz));
}

[] fn c17_script_raw() {
    let (x, tx) = sym::any_script();
    let v: u32 = x.into();
    assert!(v as u64 == u64::from_le_bytes(tx));
    let y = unsafe { Script::from_raw_unchecked(v) };
    cover!(y == x);
    assert!(y == x);
    assert!(spec::same_text(y.as_str().as_bytes(), &tx));
    let (z, tz) = sym::any_script();
    let vz: u32 = z.into();
    assert!((v == vz) == (x == z));
    assert!((x == z) == spec::txt_eq(&tx, &tz));
}

[] fn c17_region_raw() {
    let (x, tx) = sym::any_region();
    let v: u32 = x.into();
    assert!(v as u64 == u64::from_le_bytes(tx));
    let y = unsafe { Region::from_raw_unchecked(v) };
    cover!(y == x && v > 0xffff);
    assert!(y == x);
    assert!(spec::same_text(y.as_str().as_bytes(), &tx));
    let (z, tz) = sym::any_region();
    let vz: u32 = z.into();
    assert!((v == vz) == (x == z));
    assert!((x == z) == spec::txt_eq(&tx, &tz));
}

[] fn c17_variant_raw() {
    let (x, tx) = sym::any_variant();
    let v: u64 = x.into();
    let v2: u64 = (&x).into();
    assert!(v == v2);
    assert!(v == u64::from_le_bytes(tx));
    let y = unsafe { Variant::from_raw_unchecked(v) };
    cover!(y == x);
    assert!(y == x);
    assert!(spec::same_text(y.as_str().as_bytes(), &tx));
    let (z, tz) = sym::any_variant();
    let vz: u64 = z.into();
    assert!((v == vz) == (x == z));
    assert!((x == z) == spec::txt_eq(&tx, &tz));
}

// ---- from_parts(into_parts(x)) == x ----

[sortv, boxed, tovec] fn c17_langid_parts_roundtrip() {
    let (x, m) = sym::any_langid(2);
    let x2 = x.clone();
    let (l, s, r, vs) = x.into_parts();
    cover!(vs.len() == 2);
    assert!(vs.len() == m.nvariants);
    let y = LanguageIdentifier::from_parts(l, s, r, &vs);
    assert!(y == x2, "from_parts(into_parts(x)) == x");
    assert!(h::langid_is(&y, &m));
    core::mem::forget(y);
    core::mem::forget(x2);
    core::mem::forget(vs);
}

}

/// from_parts accepts variants in any order with duplicates and equals parsing the joined tokens
fn from_parts_vs_parse<const NV: usize>() {
    let (l, lt) = sym::any_language();
    let (s, st) = sym::opt_script();
    let (r, rt) = sym::opt_region();
    // NV symbolic variants in symbolic order, possibly equal
    let mut vs = [Variant::from_bytes(b"aaaaa").unwrap(); NV];
    let mut m = spec::LangIdModel { lang: lt, lang_und: spec::txt_eq(&lt, &spec::UND), script: st, region: rt, variants: [spec::NOTXT; spec::VMAX], nvariants: 0 };
    let mut i = 0;
    while i < NV {
        let (v, vt) = sym::any_variant();
        vs[i] = v;
        spec::insert_sorted_unique(&mut m.variants, &mut m.nvariants, vt);
        i += 1;
    }
    cover!(NV == 0 || m.nvariants < NV);
    cover!(m.nvariants == NV);
    let y = LanguageIdentifier::from_parts(l, s, r, &vs);
    assert!(h::langid_is(&y, &m), "from_parts sorts and de-duplicates; equals the reference canonical value");
    core::mem::forget(y);
}

pub mod more {
    use super::*;
    proofs! {
    [sortv, boxed, tovec] fn c17_from_parts_v0() { from_parts_vs_parse::<0>() }
    [sortv, boxed, tovec] fn c17_from_parts_v2() { from_parts_vs_parse::<2>() }
    [sortv, boxed, tovec] fn c17_from_parts_v3() { from_parts_vs_parse::<3>() }

    // Locale without extensions: into_parts gives an empty extension string, which re-parses to the
    // empty map, and from_parts on the parts gives back an equal locale
    [string, push, sortt, sortv, boxed, tovec] fn c17_locale_parts_noext() {
        use unic_locale_impl::extensions::ExtensionsMap;
        use unic_locale_impl::Locale;
        let (li, _m) = sym::any_langid(1);
        let loc = Locale::from(li.clone());
        let (l, s, r, vs, ext) = loc.into_parts();
        cover!(vs.len() == 1);
        assert!(ext.is_empty(), "no extensions: empty extension string");
        let em = ExtensionsMap::from_bytes(b"");
        match em {
            Ok(em) => {
                assert!(em.is_empty());
                let back = Locale::from_parts(l, s, r, &vs, Some(em));
                assert!(back.id == li && back.extensions.is_empty(), "from_parts(into_parts(x)) == x");
                core::mem::forget(back);
            }
            Err(_) => assert!(false, "the empty extension string re-parses"),
        }
        core::mem::forget((li, vs, ext));
    }
    // the extension string of a locale with one attribute and one private tag begins with the
    // separator ExtensionsMap::from_bytes tolerates: "-u-attr-x-tag" splits into an empty first subtag
    [push, sortt, sortv, boxed] fn c17_extmap_leading_sep() {
        use unic_locale_impl::extensions::ExtensionsMap;
        let em = ExtensionsMap::from_bytes(b"-u-attr");
        match &em {
            Ok(m) => {
                assert!(m.unicode.has_attribute("attr") == Ok(true) && m.transform.is_empty() && m.private.is_empty(), "the leading separator of the map's own Display output is tolerated");
            }
            Err(_) => assert!(false, "ExtensionsMap cannot re-read its own Display output"),
        }
        cover!(em.is_ok());
        core::mem::forget(em);
    }
    }
}
