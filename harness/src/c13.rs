//! C13 — Locale is a drop-in superset of LanguageIdentifier.
use crate::h;
use crate::k;
use crate::spec;
use crate::sym::{self, Tok};
use unic_langid_impl::LanguageIdentifier;
use unic_locale_impl::Locale;

/// Every token sequence LanguageIdentifier accepts is accepted by Locale with the same id and no
/// extensions.  `parse_locale` is `try_from_iter(iter, true)` followed by `ExtensionsMap::try_from_iter`
/// on what is left; running the extension dispatcher on K symbolic subtags in the same query is out of
/// reach (C01 measurements), so the clause is decided in three parts: (a) here: whenever the strict
/// entry accepts, the permissive entry used by the locale parser returns the same identifier and
/// leaves no subtag behind; (b) `c13_extmap_exhausted`: the extension parser on an exhausted iterator
/// is Ok(empty); (c) `c13_locale_glue_*`: the real `Locale::from_bytes` against `LanguageIdentifier::
/// from_bytes` on separator frames (the glue itself).
fn superset<const K: usize>() {
    let toks: [Tok; K] = h::toks9();
    h::note_toks(&toks);
    let a = h::parse_tokens(&toks, false);
    cover!(a.is_ok());
    if let Ok(li) = a {
        let (b, left) = h::parse_tokens_rest(&toks, true);
        match b {
            Ok(id) => {
                assert!(id == li, "identical id");
                assert!(left == 0, "nothing is left for the extension parser");
                core::mem::forget(id);
            }
            Err(_) => assert!(false, "Locale rejects an input LanguageIdentifier accepts"),
        }
        core::mem::forget(li);
    }
}

/// the id of a locale is what LanguageIdentifier parses from the part before the first subtag that
/// cannot belong to it: the permissive entry on K symbolic subtags consumes c of them, and the strict
/// entry on exactly those c subtags gives the same value
fn prefix<const K: usize>() {
    let toks: [Tok; K] = h::toks9();
    h::note_toks(&toks);
    let (b, left) = h::parse_tokens_rest(&toks, true);
    cover!(b.is_ok() && left == 1);
    if let Ok(id) = b {
        let c = K - left;
        let arr = h::slices(&toks);
        let mut it = arr[..c].iter().copied().peekable();
        let a = LanguageIdentifier::try_from_iter(&mut it, false);
        match a {
            Ok(li) => {
                assert!(li == id, "Locale.id equals the LanguageIdentifier parsed from the part before the extensions");
                core::mem::forget(li);
            }
            Err(_) => assert!(c == 0 || false, "the consumed prefix is itself a language identifier"),
        }
        core::mem::forget(id);
    }
}


/// Decomposed form of the two parsing clauses, for token counts where running both real entries in
/// one query is too large: (i) here: the real *permissive* entry (the one `parse_locale` calls) on K
/// symbolic subtags equals the reference permissive parse - same identifier, same number of subtags
/// left for the extension parser; (ii) `c13_ref_lemma_K`: inside the reference, the permissive parse
/// equals the strict parse of the consumed prefix, and a strict success is a permissive success with
/// nothing left; (iii) C02: the real strict entry equals the reference strict parse on every token
/// sequence.  (i)+(ii)+(iii) give both clauses by transitivity through the reference.
fn permissive<const K: usize>() {
    let toks: [Tok; K] = h::toks9();
    h::note_toks(&toks);
    let (want, consumed) = spec::parse_langid(&toks, K, true);
    let (got, left) = h::parse_tokens_rest(&toks, true);
    cover!(got.is_ok() && left == K - 1);
    cover!(got.is_ok() && left == 0);
    cover!(got.is_err());
    match (&got, &want) {
        (Ok(li), Ok(m)) => {
            assert!(h::langid_is(li, m), "permissive entry: identifier equals the reference parse of the consumed prefix");
            assert!(left == K - consumed, "permissive entry: leaves exactly the subtags that cannot belong to the language identifier");
        }
        (Err(_), Err(_)) => {}
        (Ok(_), Err(_)) => assert!(false, "permissive entry accepted an input whose first subtag is not a language"),
        (Err(_), Ok(_)) => assert!(false, "permissive entry rejected an input that starts with a language identifier"),
    }
    core::mem::forget(got);
}

/// (ii): a statement about the reference alone (no library code), decided over the same token space
fn ref_lemma<const K: usize>() {
    let toks: [Tok; K] = h::toks9();
    let inf = spec::infos(&toks);
    let (perm, c) = spec::parse_langid_info(&inf, 0, K, true);
    let (strict_all, _) = spec::parse_langid_info(&inf, 0, K, false);
    cover!(perm.is_ok() && c < K);
    cover!(strict_all.is_ok());
    if let Ok(pm) = &perm {
        let (strict_prefix, c2) = spec::parse_langid_info(&inf, 0, c, false);
        match &strict_prefix {
            Ok(sm) => {
                assert!(spec::langid_eq(sm, pm) && sm.lang_und == pm.lang_und, "reference: permissive parse == strict parse of the consumed prefix");
                assert!(c2 == c);
            }
            Err(_) => assert!(false, "reference: the consumed prefix is itself a language identifier"),
        }
    }
    if let Ok(sm) = &strict_all {
        match &perm {
            Ok(pm) => {
                assert!(spec::langid_eq(sm, pm) && c == K, "reference: a strict success is a permissive success with nothing left");
            }
            Err(_) => assert!(false),
        }
    }
}

/// `Locale::from_bytes` vs `LanguageIdentifier::from_bytes` on the same bytes (the real glue)
fn glue<const L: usize>(pat: &[u8; L]) {
    glue_opt(pat, false)
}
/// `nosep`: the symbolic positions range over every byte except the two separators (one subtag)
fn glue_opt<const L: usize>(pat: &[u8; L], nosep: bool) {
    let buf = crate::c02::sep_frame(pat);
    if nosep {
        let mut i = 0;
        while i < L {
            k::assume(pat[i] != b'?' || !spec::is_sep(buf[i]));
            i += 1;
        }
    }
    #[cfg(not(kani))]
    eprintln!("INPUT bytes={:?}", String::from_utf8_lossy(&buf));
    let a = LanguageIdentifier::from_bytes(&buf);
    let b = Locale::from_bytes(&buf);
    cover!(a.is_ok());
    cover!(a.is_err() && b.is_ok());
    if let Ok(li) = &a {
        match &b {
            Ok(loc) => {
                assert!(loc.id == *li, "identical id");
                assert!(loc.extensions.is_empty() && loc.extensions.other.is_empty(), "no extensions");
            }
            Err(_) => assert!(false, "Locale rejects an input LanguageIdentifier accepts"),
        }
    }
    core::mem::forget((a, b));
}

/// every byte string of exactly L bytes through both real `from_bytes`; the extension parser is cut
/// for non-exhausted iterators, so the only Locale results are those of extension-free inputs
fn glue_cut<const L: usize>() {
    let buf: [u8; L] = k::bytes();
    #[cfg(not(kani))]
    eprintln!("INPUT bytes={:?} {:?}", String::from_utf8_lossy(&buf), &buf);
    let a = LanguageIdentifier::from_bytes(&buf);
    let b = Locale::from_bytes(&buf);
    cover!(a.is_ok() || L < 2);
    if let Ok(li) = &a {
        match &b {
            Ok(loc) => {
                assert!(loc.id == *li, "identical id");
                assert!(loc.extensions.is_empty() && loc.extensions.other.is_empty(), "no extensions");
            }
            Err(_) => assert!(false, "Locale rejects an input LanguageIdentifier accepts"),
        }
    }
    core::mem::forget((a, b));
}

proofs! {

[push, sortv, boxed] fn c13_superset_1() { superset::<1>() }
[push, sortv, boxed] fn c13_superset_2() { superset::<2>() }
[push, sortv, boxed] fn c13_superset_3() { superset::<3>() }
[push, sortv, boxed] fn c13_permissive_1() { permissive::<1>() }
[push, sortv, boxed] fn c13_permissive_2() { permissive::<2>() }
[push, sortv, boxed] fn c13_permissive_3() { permissive::<3>() }
[push, sortv, boxed] fn c13_permissive_4() { permissive::<4>() }
[] fn c13_ref_lemma_2() { ref_lemma::<2>() }
[] fn c13_ref_lemma_3() { ref_lemma::<3>() }
[] fn c13_ref_lemma_4() { ref_lemma::<4>() }
[push, sortv, boxed] fn c13_prefix_2() { prefix::<2>() }
[push, sortv, boxed] fn c13_prefix_3() { prefix::<3>() }
[push, sortt, sortv, boxed] fn c13_extmap_exhausted() {
    // (an empty slice of a real array: the iterator of a zero-length array starts from a dangling
    // integer-to-pointer cast whose `ptr == end` test CBMC does not fold)
    let toks: [Tok; 1] = [Tok::lit(b"x")];
    let arr = h::slices(&toks);
    let mut it = arr[..0].iter().copied().peekable();
    let r = unic_locale_impl::extensions::ExtensionsMap::verif_try_from_iter(&mut it);
    match &r {
        Ok(m) => assert!(m.is_empty() && m.other.is_empty()),
        Err(_) => assert!(false, "no extension subtags: Ok(empty)"),
    }
    cover!(r.is_ok());
    core::mem::forget(r);
}
[push, sortt, sortv, boxed] fn c13_locale_glue_en_us() { glue(b"en?US") }
[push, sortt, sortv, boxed] fn c13_locale_glue_en_x_ab() { glue(b"en?x?ab") }
// the real parse_locale glue on extension-free inputs, extension parser cut (stubs::ext_cut)
[push, sortt, sortv, boxed, extcut] fn c13_glue_cut_len1() { glue_cut::<1>() }
[push, sortt, sortv, boxed, extcut] fn c13_glue_cut_len2() { glue_cut::<2>() }
[push, sortt, sortv, boxed, extcut] fn c13_glue_cut_len3() { glue_cut::<3>() }
// symbolic language (every 2- and 3-byte string), through the real parse_locale glue
[push, sortt, sortv, boxed] fn c13_locale_glue_lang2() { glue_opt(b"??", true) }
[push, sortt, sortv, boxed] fn c13_locale_glue_lang3() { glue_opt(b"???", true) }
[push, sortt, sortv, boxed] fn c13_locale_glue_lang2_us() { glue_opt(b"??-US", true) }

// conversions
[] fn c13_conversions() {
    let (li, m) = sym::any_langid(2);
    let li2 = li.clone();
    let loc = Locale::from(li);
    cover!(m.nvariants == 2);
    assert!(loc.extensions.is_empty());
    assert!(loc.id == li2);
    {
        let r: &LanguageIdentifier = loc.as_ref();
        assert!(*r == li2, "AsRef<LanguageIdentifier> exposes the id");
        assert!(li2.matches(&loc, false, false), "a LanguageIdentifier can be matched against a Locale directly");
    }
    let back = LanguageIdentifier::from(loc);
    assert!(back == li2, "LanguageIdentifier -> Locale -> LanguageIdentifier is the identity");
    assert!(h::langid_is(&back, &m));
    core::mem::forget(back);
    core::mem::forget(li2);
}

}
