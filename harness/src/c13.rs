//! C13 — Locale is a drop-in superset of LanguageIdentifier.
use crate::h;
use crate::k;
use crate::spec;
use crate::sym::{self, Tok};
use unic_langid_impl::LanguageIdentifier;
use unic_locale_impl::Locale;

/// every token sequence LanguageIdentifier accepts is accepted by Locale with the same id and no extensions
fn superset<const K: usize>() {
    let toks: [Tok; K] = h::toks9();
    h::note_toks(&toks);
    let a = h::parse_tokens(&toks, false);
    cover!(a.is_ok());
    if let Ok(li) = a {
        let b = h::parse_locale_tokens(&toks);
        match b {
            Ok(loc) => {
                assert!(loc.id == li, "identical id");
                assert!(loc.extensions.is_empty(), "no extensions");
                assert!(loc.extensions.unicode.is_empty() && loc.extensions.transform.is_empty() && loc.extensions.private.is_empty() && loc.extensions.other.is_empty());
                core::mem::forget(loc);
            }
            Err(_) => assert!(false, "Locale rejects an input LanguageIdentifier accepts"),
        }
        core::mem::forget(li);
    }
}

proofs! {

[push, sortv, boxed] fn c13_superset_1() { superset::<1>() }
[push, sortv, boxed] fn c13_superset_2() { superset::<2>() }
[push, sortv, boxed] fn c13_superset_3() { superset::<3>() }

// conversions
[] fn c13_conversions() {
    let (li, m) = sym::any_langid(2);
    let li2 = li.clone();
    let loc = Locale::from(li);
    cover!(m.nvariants == 2);
    assert!(loc.extensions.is_empty());
    assert!(loc.id == li2);
    {
        let r: &LanguageIdentifier = loc.as_ref();
        assert!(*r == li2, "AsRef<LanguageIdentifier> exposes the id");
        assert!(li2.matches(&loc, false, false), "a LanguageIdentifier can be matched against a Locale directly");
    }
    let back = LanguageIdentifier::from(loc);
    assert!(back == li2, "LanguageIdentifier -> Locale -> LanguageIdentifier is the identity");
    assert!(h::langid_is(&back, &m));
    core::mem::forget(back);
    core::mem::forget(li2);
}

}
