//! C13 — Locale is a drop-in superset of LanguageIdentifier.
use crate::h;
use crate::k;
use crate::spec;
use crate::sym::{self, Tok};
use unic_langid_impl::LanguageIdentifier;
use unic_locale_impl::Locale;

/// Every token sequence LanguageIdentifier accepts is accepted by Locale with the same id and no
/// extensions.  `parse_locale` is `try_from_iter(iter, true)` followed by `ExtensionsMap::try_from_iter`
/// on what is left; running the extension dispatcher on K symbolic subtags in the same query is out of
/// reach (C01 measurements), so the clause is decided in three parts: (a) here: whenever the strict
/// entry accepts, the permissive entry used by the locale parser returns the same identifier and
/// leaves no subtag behind; (b) `c13_extmap_exhausted`: the extension parser on an exhausted iterator
/// is Ok(empty); (c) `c13_locale_glue_*`: the real `Locale::from_bytes` against `LanguageIdentifier::
/// from_bytes` on separator frames (the glue itself).
fn superset<const K: usize>() {
    let toks: [Tok; K] = h::toks9();
    h::note_toks(&toks);
    let a = h::parse_tokens(&toks, false);
    cover!(a.is_ok());
    if let Ok(li) = a {
        let (b, left) = h::parse_tokens_rest(&toks, true);
        match b {
            Ok(id) => {
                assert!(id == li, "identical id");
                assert!(left == 0, "nothing is left for the extension parser");
                core::mem::forget(id);
            }
            Err(_) => assert!(false, "Locale rejects an input LanguageIdentifier accepts"),
        }
        core::mem::forget(li);
    }
}

/// the id of a locale is what LanguageIdentifier parses from the part before the first subtag that
/// cannot belong to it: the permissive entry on K symbolic subtags consumes c of them, and the strict
/// entry on exactly those c subtags gives the same value
fn prefix<const K: usize>() {
    let toks: [Tok; K] = h::toks9();
    h::note_toks(&toks);
    let (b, left) = h::parse_tokens_rest(&toks, true);
    cover!(b.is_ok() && left == 1);
    if let Ok(id) = b {
        let c = K - left;
        let arr = h::slices(&toks);
        let mut it = arr[..c].iter().copied().peekable();
        let a = LanguageIdentifier::try_from_iter(&mut it, false);
        match a {
            Ok(li) => {
                assert!(li == id, "Locale.id equals the LanguageIdentifier parsed from the part before the extensions");
                core::mem::forget(li);
            }
            Err(_) => assert!(c == 0 || false, "the consumed prefix is itself a language identifier"),
        }
        core::mem::forget(id);
    }
}

/// `Locale::from_bytes` vs `LanguageIdentifier::from_bytes` on the same bytes (the real glue)
fn glue<const L: usize>(pat: &[u8; L]) {
    let buf = crate::c02::sep_frame(pat);
    #[cfg(not(kani))]
    eprintln!("INPUT bytes={:?}", String::from_utf8_lossy(&buf));
    let a = LanguageIdentifier::from_bytes(&buf);
    let b = Locale::from_bytes(&buf);
    cover!(a.is_ok());
    cover!(a.is_err() && b.is_ok());
    if let Ok(li) = &a {
        match &b {
            Ok(loc) => {
                assert!(loc.id == *li, "identical id");
                assert!(loc.extensions.is_empty() && loc.extensions.other.is_empty(), "no extensions");
            }
            Err(_) => assert!(false, "Locale rejects an input LanguageIdentifier accepts"),
        }
    }
    core::mem::forget((a, b));
}

proofs! {

[push, sortv, boxed] fn c13_superset_1() { superset::<1>() }
[push, sortv, boxed] fn c13_superset_2() { superset::<2>() }
[push, sortv, boxed] fn c13_superset_3() { superset::<3>() }
[push, sortv, boxed] fn c13_prefix_2() { prefix::<2>() }
[push, sortv, boxed] fn c13_prefix_3() { prefix::<3>() }
[push, sortt, sortv, boxed] fn c13_extmap_exhausted() {
    // (an empty slice of a real array: the iterator of a zero-length array starts from a dangling
    // integer-to-pointer cast whose `ptr == end` test CBMC does not fold)
    let toks: [Tok; 1] = [Tok::lit(b"x")];
    let arr = h::slices(&toks);
    let mut it = arr[..0].iter().copied().peekable();
    let r = unic_locale_impl::extensions::ExtensionsMap::verif_try_from_iter(&mut it);
    match &r {
        Ok(m) => assert!(m.is_empty() && m.other.is_empty()),
        Err(_) => assert!(false, "no extension subtags: Ok(empty)"),
    }
    cover!(r.is_ok());
    core::mem::forget(r);
}
[push, sortt, sortv, boxed] fn c13_locale_glue_en_us() { glue(b"en?US") }
[push, sortt, sortv, boxed] fn c13_locale_glue_en_x_ab() { glue(b"en?x?ab") }

// conversions
[] fn c13_conversions() {
    let (li, m) = sym::any_langid(2);
    let li2 = li.clone();
    let loc = Locale::from(li);
    cover!(m.nvariants == 2);
    assert!(loc.extensions.is_empty());
    assert!(loc.id == li2);
    {
        let r: &LanguageIdentifier = loc.as_ref();
        assert!(*r == li2, "AsRef<LanguageIdentifier> exposes the id");
        assert!(li2.matches(&loc, false, false), "a LanguageIdentifier can be matched against a Locale directly");
    }
    let back = LanguageIdentifier::from(loc);
    assert!(back == li2, "LanguageIdentifier -> Locale -> LanguageIdentifier is the identity");
    assert!(h::langid_is(&back, &m));
    core::mem::forget(back);
    core::mem::forget(li2);
}

}
