//! C19 — serde form is the canonical string and round-trips.
//! The harness supplies its own minimal Serializer / Deserializer so that exactly the library's
//! impls (unic-langid-impl/src/serde.rs) plus serde's trait plumbing are under the solver;
//! serde_json's tokenizer is outside the claim.
#![cfg(feature = "serde")]
use crate::c04::{bytes_are, OUT};
use crate::h;
use crate::k;
use crate::spec;
use crate::sym;
use serde::de::{self, Deserialize, Deserializer, Visitor};
use serde::ser::{self, Impossible, Serialize, Serializer};
use std::fmt;
use unic_langid_impl::LanguageIdentifier;

#[derive(Debug)]
pub struct E;
impl fmt::Display for E {
    fn fmt(&self, _f: &mut fmt::Formatter) -> fmt::Result {
        Ok(())
    }
}
impl std::error::Error for E {}
impl ser::Error for E {
    fn custom<T: fmt::Display>(_msg: T) -> Self {
        E
    }
}
impl de::Error for E {
    fn custom<T: fmt::Display>(_msg: T) -> Self {
        E
    }
}

/// captures the string handed to `serialize_str`; every other call is an error
pub struct Cap<'a> {
    pub buf: &'a mut [u8; OUT],
    pub n: &'a mut usize,
}
macro_rules! refuse {
    ($($f:ident($($t:ty),*);)*) => { $( fn $f(self $(, _: $t)*) -> Result<(), E> { Err(E) } )* };
}
impl<'a> Serializer for Cap<'a> {
    type Ok = ();
    type Error = E;
    type SerializeSeq = Impossible<(), E>;
    type SerializeTuple = Impossible<(), E>;
    type SerializeTupleStruct = Impossible<(), E>;
    type SerializeTupleVariant = Impossible<(), E>;
    type SerializeMap = Impossible<(), E>;
    type SerializeStruct = Impossible<(), E>;
    type SerializeStructVariant = Impossible<(), E>;
    fn serialize_str(self, v: &str) -> Result<(), E> {
        let b = v.as_bytes();
        if b.len() > OUT {
            return Err(E);
        }
        let mut i = 0;
        while i < b.len() {
            self.buf[i] = b[i];
            i += 1;
        }
        *self.n = b.len();
        Ok(())
    }
    refuse! {
        serialize_bool(bool); serialize_i8(i8); serialize_i16(i16); serialize_i32(i32); serialize_i64(i64);
        serialize_u8(u8); serialize_u16(u16); serialize_u32(u32); serialize_u64(u64); serialize_f32(f32); serialize_f64(f64);
        serialize_char(char); serialize_bytes(&[u8]); serialize_none(); serialize_unit(); serialize_unit_struct(&'static str);
        serialize_unit_variant(&'static str, u32, &'static str);
    }
    fn serialize_some<T: ?Sized + Serialize>(self, _: &T) -> Result<(), E> {
        Err(E)
    }
    fn serialize_newtype_struct<T: ?Sized + Serialize>(self, _: &'static str, _: &T) -> Result<(), E> {
        Err(E)
    }
    fn serialize_newtype_variant<T: ?Sized + Serialize>(self, _: &'static str, _: u32, _: &'static str, _: &T) -> Result<(), E> {
        Err(E)
    }
    fn serialize_seq(self, _: Option<usize>) -> Result<Self::SerializeSeq, E> {
        Err(E)
    }
    fn serialize_tuple(self, _: usize) -> Result<Self::SerializeTuple, E> {
        Err(E)
    }
    fn serialize_tuple_struct(self, _: &'static str, _: usize) -> Result<Self::SerializeTupleStruct, E> {
        Err(E)
    }
    fn serialize_tuple_variant(self, _: &'static str, _: u32, _: &'static str, _: usize) -> Result<Self::SerializeTupleVariant, E> {
        Err(E)
    }
    fn serialize_map(self, _: Option<usize>) -> Result<Self::SerializeMap, E> {
        Err(E)
    }
    fn serialize_struct(self, _: &'static str, _: usize) -> Result<Self::SerializeStruct, E> {
        Err(E)
    }
    fn serialize_struct_variant(self, _: &'static str, _: u32, _: &'static str, _: usize) -> Result<Self::SerializeStructVariant, E> {
        Err(E)
    }
}

/// a self-describing input: one value of a kind chosen by the harness
pub enum In<'a> {
    Str(&'a str),
    Bool(bool),
    U64(u64),
    I64(i64),
    F64(f64),
    Unit,
    None,
    Bytes(&'a [u8]),
}
impl<'de, 'a> Deserializer<'de> for In<'a> {
    type Error = E;
    fn deserialize_any<V: Visitor<'de>>(self, v: V) -> Result<V::Value, E> {
        match self {
            In::Str(s) => v.visit_str(s),
            In::Bool(b) => v.visit_bool(b),
            In::U64(x) => v.visit_u64(x),
            In::I64(x) => v.visit_i64(x),
            In::F64(x) => v.visit_f64(x),
            In::Unit => v.visit_unit(),
            In::None => v.visit_none(),
            In::Bytes(b) => v.visit_bytes(b),
        }
    }
    serde::forward_to_deserialize_any! {
        bool i8 i16 i32 i64 i128 u8 u16 u32 u64 u128 f32 f64 char str string bytes byte_buf option unit unit_struct
        newtype_struct seq tuple tuple_struct map struct enum identifier ignored_any
    }
}

fn deser_frame<const L: usize>(pat: &[u8; L]) {
    let buf = crate::c02::sep_frame(pat);
    let mut i = 0;
    while i < L {
        k::assume(buf[i] < 0x80);
        i += 1;
    }
    let s: &str = unsafe { core::str::from_utf8_unchecked(&buf) };
    #[cfg(not(kani))]
    eprintln!("INPUT s={:?}", s);
    let d = LanguageIdentifier::deserialize(In::Str(s));
    let p: Result<LanguageIdentifier, _> = s.parse();
    cover!(d.is_ok() || L < 2);
    cover!(d.is_err());
    match (&d, &p) {
        (Ok(a), Ok(b)) => assert!(a == b, "deserialised value equals the parsed value"),
        (Err(_), Err(_)) => {}
        _ => assert!(false, "deserialising a string succeeds iff parsing it succeeds"),
    }
    core::mem::forget((d, p));
}

/// a self-describing input holding exactly one value of one kind
pub struct One<T>(pub T);
macro_rules! one {
    ($t:ty, $visit:ident, |$x:ident| $e:expr) => {
        impl<'de> Deserializer<'de> for One<$t> {
            type Error = E;
            fn deserialize_any<V: Visitor<'de>>(self, v: V) -> Result<V::Value, E> {
                let $x = self.0;
                v.$visit($e)
            }
            serde::forward_to_deserialize_any! {
                bool i8 i16 i32 i64 i128 u8 u16 u32 u64 u128 f32 f64 char str string bytes byte_buf option unit unit_struct
                newtype_struct seq tuple tuple_struct map struct enum identifier ignored_any
            }
        }
    };
}
one!(bool, visit_bool, |x| x);
one!(u64, visit_u64, |x| x);
one!(i64, visit_i64, |x| x);
one!(f64, visit_f64, |x| x);
impl<'de> Deserializer<'de> for One<()> {
    type Error = E;
    fn deserialize_any<V: Visitor<'de>>(self, v: V) -> Result<V::Value, E> {
        v.visit_unit()
    }
    serde::forward_to_deserialize_any! {
        bool i8 i16 i32 i64 i128 u8 u16 u32 u64 u128 f32 f64 char str string bytes byte_buf option unit unit_struct
        newtype_struct seq tuple tuple_struct map struct enum identifier ignored_any
    }
}
impl<'de> Deserializer<'de> for One<Option<()>> {
    type Error = E;
    fn deserialize_any<V: Visitor<'de>>(self, v: V) -> Result<V::Value, E> {
        v.visit_none()
    }
    serde::forward_to_deserialize_any! {
        bool i8 i16 i32 i64 i128 u8 u16 u32 u64 u128 f32 f64 char str string bytes byte_buf option unit unit_struct
        newtype_struct seq tuple tuple_struct map struct enum identifier ignored_any
    }
}
impl<'de, 'a> Deserializer<'de> for One<&'a [u8]> {
    type Error = E;
    fn deserialize_any<V: Visitor<'de>>(self, v: V) -> Result<V::Value, E> {
        v.visit_bytes(self.0)
    }
    serde::forward_to_deserialize_any! {
        bool i8 i16 i32 i64 i128 u8 u16 u32 u64 u128 f32 f64 char str string bytes byte_buf option unit unit_struct
        newtype_struct seq tuple tuple_struct map struct enum identifier ignored_any
    }
}

proofs! {

// serialises to exactly the canonical string
[string] fn c19_serialize_canonical() {
    let (x, m) = sym::any_langid(1);
    let mut buf = [0u8; OUT];
    let mut n = 0usize;
    let r = x.serialize(Cap { buf: &mut buf, n: &mut n });
    let mut want = [0u8; OUT];
    let mut wn = 0;
    spec::write_langid(&mut want, &mut wn, &m);
    cover!(m.nvariants == 1);
    assert!(r.is_ok(), "serialisation succeeds");
    assert!(bytes_are(&buf[..n], &want, wn), "serialises to exactly the canonical string");
    core::mem::forget(x);
}

// longer identifiers (two variants: up to 35 bytes of text)
[string] fn c19_serialize_canonical_v2() {
    let (x, m) = sym::langid_shape(true, true, 2);
    let mut buf = [0u8; OUT];
    let mut n = 0usize;
    let r = x.serialize(Cap { buf: &mut buf, n: &mut n });
    let mut want = [0u8; OUT];
    let mut wn = 0;
    spec::write_langid(&mut want, &mut wn, &m);
    cover!(wn > 32);
    assert!(r.is_ok(), "serialisation succeeds");
    assert!(bytes_are(&buf[..n], &want, wn), "serialises to exactly the canonical string");
    core::mem::forget(x);
}

// deserialising any string succeeds iff parsing it succeeds, with an equal result
[push, sortv, boxed] fn c19_deserialize_str_3() {
    let b: [u8; 3] = k::bytes();
    let n = k::usize();
    k::assume(n <= 3);
    k::assume(b[0] < 0x80 && b[1] < 0x80 && b[2] < 0x80);
    let s: &str = unsafe { core::str::from_utf8_unchecked(&b[..n]) };
    #[cfg(not(kani))]
    eprintln!("INPUT s={:?}", s);
    let d = LanguageIdentifier::deserialize(In::Str(s));
    let p: Result<LanguageIdentifier, _> = s.parse();
    cover!(d.is_ok());
    cover!(d.is_err());
    match (&d, &p) {
        (Ok(a), Ok(b)) => assert!(a == b, "deserialised value equals the parsed value"),
        (Err(_), Err(_)) => {}
        _ => assert!(false, "deserialising a string succeeds iff parsing it succeeds"),
    }
    core::mem::forget((d, p));
}

// the same on a separator frame: concrete subtags, every ? any ASCII byte
[push, sortv, boxed] fn c19_deserialize_frame() {
    let buf = crate::c02::sep_frame(b"en?US");
    k::assume(buf[2] < 0x80);
    let s: &str = unsafe { core::str::from_utf8_unchecked(&buf) };
    #[cfg(not(kani))]
    eprintln!("INPUT s={:?}", s);
    let d = LanguageIdentifier::deserialize(In::Str(s));
    let p: Result<LanguageIdentifier, _> = s.parse();
    cover!(d.is_ok());
    cover!(d.is_err());
    match (&d, &p) {
        (Ok(a), Ok(b)) => assert!(a == b, "deserialised value equals the parsed value"),
        (Err(_), Err(_)) => {}
        _ => assert!(false, "deserialising a string succeeds iff parsing it succeeds"),
    }
    core::mem::forget((d, p));
}
// a well-formed identifier with one arbitrary ASCII byte in front / behind (padding, quotes, NUL ...)
[push, sortv, boxed] fn c19_deserialize_lead() { deser_frame(b"?en") }
[push, sortv, boxed] fn c19_deserialize_trail() { deser_frame(b"en?") }
[push, sortv, boxed] fn c19_deserialize_lead_trail() { deser_frame(b"?en-US?") }
[push, sortv, boxed] fn c19_deserialize_str_1() { deser_frame(b"?") }
[push, sortv, boxed] fn c19_deserialize_concrete() {
    let s = "en-Latn-US";
    let d = LanguageIdentifier::deserialize(In::Str(s));
    let p: Result<LanguageIdentifier, _> = s.parse();
    cover!(d.is_ok());
    match (&d, &p) {
        (Ok(a), Ok(b)) => assert!(a == b && a.script.is_some() && a.region.is_some(), "deserialised value equals the parsed value"),
        _ => assert!(false, "a well-formed identifier deserialises"),
    }
    core::mem::forget((d, p));
}
[push, sortv, boxed] fn c19_deserialize_str_2() {
    let b: [u8; 2] = k::bytes();
    k::assume(b[0] < 0x80 && b[1] < 0x80);
    let s: &str = unsafe { core::str::from_utf8_unchecked(&b) };
    #[cfg(not(kani))]
    eprintln!("INPUT s={:?}", s);
    let d = LanguageIdentifier::deserialize(In::Str(s));
    let p: Result<LanguageIdentifier, _> = s.parse();
    cover!(d.is_ok());
    cover!(d.is_err());
    match (&d, &p) {
        (Ok(a), Ok(b)) => assert!(a == b, "deserialised value equals the parsed value"),
        (Err(_), Err(_)) => {}
        _ => assert!(false, "deserialising a string succeeds iff parsing it succeeds"),
    }
    core::mem::forget((d, p));
}

// non-string inputs are rejected with an error, never a panic.  One Deserializer type per kind
// (not the `In` enum): the value of an enum selected by a symbolic tag reaches the `Str` arm's
// payload as unconstrained bytes in CBMC's merged state, which drags the whole parser into the query
// on a string of unconstrained pointer and length (measured: no result in 30 min)
[] fn c19_non_string_rejected() {
    let sel = k::u8();
    k::assume(sel < 7);
    let raw = k::u64();
    let bytes: [u8; 2] = k::bytes();
    let d = match sel {
        0 => LanguageIdentifier::deserialize(One::<bool>(raw & 1 == 1)),
        1 => LanguageIdentifier::deserialize(One::<u64>(raw)),
        2 => LanguageIdentifier::deserialize(One::<i64>(raw as i64)),
        3 => LanguageIdentifier::deserialize(One::<f64>(f64::from_bits(raw))),
        4 => LanguageIdentifier::deserialize(One::<()>(())),
        5 => LanguageIdentifier::deserialize(One::<Option<()>>(None)),
        _ => LanguageIdentifier::deserialize(One::<&[u8]>(&bytes)),
    };
    cover!(sel == 6);
    cover!(sel == 3);
    assert!(d.is_err(), "non-string input is rejected");
    core::mem::forget(d);
}

}
