//! Native replay of a solver counterexample:  replay <harness> <hex,hex,...>
//! Each hex item is one `kani::any` value in call order (little endian bytes).
//! Exit: 101 (panic) = the violation reproduces on the real code; 0 = it does
//! not; 4 = the trace does not fit the harness (machinery error).
#[cfg(kani)]
fn main() {}

#[cfg(not(kani))]
fn main() {
    let a: Vec<String> = std::env::args().collect();
    if a.len() < 2 {
        for (n, _) in vh::all() {
            println!("{}", n);
        }
        return;
    }
    let vals: Vec<Vec<u8>> = if a.len() > 2 && !a[2].is_empty() {
        a[2].split(',')
            .map(|h| (0..h.len() / 2).map(|i| u8::from_str_radix(&h[2 * i..2 * i + 2], 16).unwrap()).collect())
            .collect()
    } else {
        vec![]
    };
    vh::k::native::load(vals);
    for (n, f) in vh::all() {
        if n == a[1] {
            f();
            eprintln!("REPLAY-OK harness returned normally");
            return;
        }
    }
    eprintln!("REPLAY-MISMATCH unknown harness {}", a[1]);
    std::process::exit(4);
}
