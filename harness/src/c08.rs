//! C08 — minimize preserves meaning, never lengthens, and is idempotent.
#![cfg(feature = "likelysubtags")]
use crate::k;
use crate::lk;
use crate::sym;
use unic_langid_impl::likelysubtags::{maximize, minimize};
use unic_langid_impl::subtags::Language;
use unic_langid_impl::LanguageIdentifier;

/// single-call laws for an input whose language is und (concrete) or any non-empty language
fn laws(und: bool) {
    let l = if und {
        Language::default()
    } else {
        let (l, _) = sym::any_language();
        k::assume(!l.is_empty());
        l
    };
    let (s, _) = sym::opt_script();
    let (r, _) = sym::opt_region();
    let full = !l.is_empty() && s.is_some() && r.is_some();
    let maxed = if full { Some((l, s, r)) } else { maximize(l, s, r) };
    let got = minimize(l, s, r);
    cover!(got.is_some());
    cover!(got.is_none());
    match (got, maxed) {
        (Some(m), Some(mx)) => {
            // uses no subtag the maximised original lacks
            assert!(m.0 == mx.0, "language of the minimised form is the maximised language");
            assert!(m.1.is_none() || m.1 == mx.1, "script, if kept, is the maximised script");
            assert!(m.2.is_none() || m.2 == mx.2, "region, if kept, is the maximised region");
            assert!(!(m.1.is_some() && m.2.is_some()), "one of {{language, language-region, language-script}}");
            // maximises back to the same triple
            assert!(maximize(m.0, m.1, m.2) == Some(mx), "the result maximizes to the same (language, script, region) as the original");
        }
        (Some(_), None) => assert!(false, "minimize produced a value although nothing is known about the input"),
        (None, _) => {}
    }
}

/// The laws for one concrete language and every (script?, region?): the language-only lookups fold to
/// constants, so the 7143-row table costs nothing.  One harness per clause (`part`) so that each query
/// carries at most two `minimize` calls:
///   0: result uses only subtags of the maximised form, is one of the three shapes, maximizes back
///   1: it is the *first* of {language, language-region, language-script} that maximizes back; None only if none does
///   2: minimizing twice equals minimizing once
///   3: minimize(maximize(x)) == minimize(x)
fn laws_lang(code: &[u8], part: u8) {
    laws_lang_opt(code, part, false)
}
/// `full`: script and region both present.  Then `minimize` starts from the input itself, every
/// lookup it makes has the *concrete* language as key (the 7143-row search folds to constants), and
/// only the 62- and 378-row tables are searched with symbolic keys: the one input class for which the
/// minimize laws are cheap.  (With a subtag missing the first `maximize` returns the language of a
/// table row - a symbolic value - and every later lookup searches the big table with it.)
fn laws_lang_opt(code: &[u8], part: u8, full_input: bool) {
    let l = Language::from_bytes(code).unwrap();
    let (s, r) = if full_input {
        (Some(sym::any_script().0), Some(sym::any_region().0))
    } else {
        (sym::opt_script().0, sym::opt_region().0)
    };
    let full = s.is_some() && r.is_some();
    let maxed = if full { Some((l, s, r)) } else { maximize(l, s, r) };
    let got = minimize(l, s, r);
    // (a language without CLDR entry - the 3-letter representative - is never changed)
    cover!((got.is_some() && s.is_some()) || (code.len() == 3 && got.is_none() && s.is_some()));
    match (got, maxed) {
        (Some(m), Some(mx)) => match part {
            0 => {
                assert!(m.0 == mx.0, "language of the minimised form is the maximised language");
                assert!(m.1.is_none() || m.1 == mx.1, "script, if kept, is the maximised script");
                assert!(m.2.is_none() || m.2 == mx.2, "region, if kept, is the maximised region");
                assert!(!(m.1.is_some() && m.2.is_some()), "one of {{language, language-region, language-script}}");
                assert!(m.1.is_none() || s.is_some() || true);
                assert!(maximize(m.0, m.1, m.2) == Some(mx), "the result maximizes to the same (language, script, region) as the original");
            }
            1 => {
                let t0 = maximize(mx.0, None, None) == Some(mx);
                let t1 = mx.2.is_some() && maximize(mx.0, None, mx.2) == Some(mx);
                if t0 {
                    assert!(m.1.is_none() && m.2.is_none(), "bare language is preferred when it maximizes back");
                } else if t1 {
                    assert!(m.1.is_none() && m.2 == mx.2, "language-region is preferred over language-script");
                } else {
                    assert!(m.1 == mx.1 && m.2.is_none());
                }
            }
            2 => assert!(minimize(m.0, m.1, m.2) == Some(m), "minimizing twice equals minimizing once"),
            _ => assert!(minimize(mx.0, mx.1, mx.2) == Some(m), "minimize(maximize(x)) == minimize(x)"),
        },
        (Some(_), None) => assert!(false, "minimize produced a value although nothing is known about the input"),
        (None, Some(mx)) => {
            if part == 1 {
                // nothing maximizes back: none of the three candidate forms does
                assert!(maximize(mx.0, None, None) != Some(mx));
                assert!(mx.2.is_none() || maximize(mx.0, None, mx.2) != Some(mx));
                assert!(mx.1.is_none() || maximize(mx.0, mx.1, None) != Some(mx));
            }
        }
        (None, None) => {}
    }
}
fn wrapper_lang(code: &[u8]) {
    let (mut li, _m) = sym::any_langid(1);
    li.language = Language::from_bytes(code).unwrap();
    let before = li.clone();
    let want = minimize(before.language, before.script, before.region);
    let changed = li.minimize();
    cover!(changed);
    assert!(changed == want.is_some(), "bool result <=> a minimal form was found");
    assert!(li.variants().len() == before.variants().len() && li.variants().zip(before.variants()).all(|(a, b)| a == b), "variants are never touched");
    match want {
        Some(t) => assert!((li.language, li.script, li.region) == t),
        None => assert!(li == before, "false leaves the identifier unchanged"),
    }
    core::mem::forget((li, before));
}

proofs! {
[] fn c08_zh_meaning() { laws_lang(b"zh", 0) }
[] fn c08_zh_first() { laws_lang(b"zh", 1) }
[] fn c08_zh_idempotent() { laws_lang(b"zh", 2) }
[] fn c08_zh_minmax() { laws_lang(b"zh", 3) }
[] fn c08_sr_meaning() { laws_lang(b"sr", 0) }
[] fn c08_sr_first() { laws_lang(b"sr", 1) }
[] fn c08_sr_idempotent() { laws_lang(b"sr", 2) }
[] fn c08_sr_minmax() { laws_lang(b"sr", 3) }
[] fn c08_en_meaning() { laws_lang(b"en", 0) }
[] fn c08_en_first() { laws_lang(b"en", 1) }
[] fn c08_qaa_meaning() { laws_lang(b"qaa", 0) }
[] fn c08_qaa_first() { laws_lang(b"qaa", 1) }
[] fn c08_zh_full_meaning() { laws_lang_opt(b"zh", 0, true) }
[] fn c08_zh_full_first() { laws_lang_opt(b"zh", 1, true) }
[] fn c08_sr_full_meaning() { laws_lang_opt(b"sr", 0, true) }
[] fn c08_sr_full_first() { laws_lang_opt(b"sr", 1, true) }
[] fn c08_en_full_first() { laws_lang_opt(b"en", 1, true) }
[] fn c08_wrapper_zh() { wrapper_lang(b"zh") }
[] fn c08_laws_und() { laws(true) }
[] fn c08_laws_lang() { laws(false) }

// wrapper: variants untouched, bool <=> likelysubtags::minimize found something, false => unchanged
[] fn c08_wrapper_und() {
    let (mut li, _m) = sym::any_langid(1);
    li.language = Language::default();
    let before = li.clone();
    let want = minimize(before.language, before.script, before.region);
    let changed = li.minimize();
    cover!(changed);
    cover!(!changed);
    assert!(changed == want.is_some());
    assert!(li.variants().len() == before.variants().len() && li.variants().zip(before.variants()).all(|(a, b)| a == b), "variants are never touched");
    match want {
        Some(t) => assert!((li.language, li.script, li.region) == t),
        None => assert!(li == before, "false leaves the identifier unchanged"),
    }
    core::mem::forget((li, before));
}
}
