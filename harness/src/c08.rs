//! C08 — minimize preserves meaning, never lengthens, and is idempotent.
#![cfg(feature = "likelysubtags")]
use crate::k;
use crate::lk;
use crate::sym;
use unic_langid_impl::likelysubtags::{maximize, minimize};
use unic_langid_impl::subtags::Language;
use unic_langid_impl::LanguageIdentifier;

/// single-call laws for an input whose language is und (concrete) or any non-empty language
fn laws(und: bool) {
    let l = if und {
        Language::default()
    } else {
        let (l, _) = sym::any_language();
        k::assume(!l.is_empty());
        l
    };
    let (s, _) = sym::opt_script();
    let (r, _) = sym::opt_region();
    let full = !l.is_empty() && s.is_some() && r.is_some();
    let maxed = if full { Some((l, s, r)) } else { maximize(l, s, r) };
    let got = minimize(l, s, r);
    cover!(got.is_some());
    cover!(got.is_none());
    match (got, maxed) {
        (Some(m), Some(mx)) => {
            // uses no subtag the maximised original lacks
            assert!(m.0 == mx.0, "language of the minimised form is the maximised language");
            assert!(m.1.is_none() || m.1 == mx.1, "script, if kept, is the maximised script");
            assert!(m.2.is_none() || m.2 == mx.2, "region, if kept, is the maximised region");
            assert!(!(m.1.is_some() && m.2.is_some()), "one of {{language, language-region, language-script}}");
            // maximises back to the same triple
            assert!(maximize(m.0, m.1, m.2) == Some(mx), "the result maximizes to the same (language, script, region) as the original");
        }
        (Some(_), None) => assert!(false, "minimize produced a value although nothing is known about the input"),
        (None, _) => {}
    }
}

proofs! {
[] fn c08_laws_und() { laws(true) }
[] fn c08_laws_lang() { laws(false) }

// wrapper: variants untouched, bool <=> likelysubtags::minimize found something, false => unchanged
[] fn c08_wrapper_und() {
    let (mut li, _m) = sym::any_langid(1);
    li.language = Language::default();
    let before = li.clone();
    let want = minimize(before.language, before.script, before.region);
    let changed = li.minimize();
    cover!(changed);
    cover!(!changed);
    assert!(changed == want.is_some());
    assert!(li.variants().len() == before.variants().len() && li.variants().zip(before.variants()).all(|(a, b)| a == b), "variants are never touched");
    match want {
        Some(t) => assert!((li.language, li.script, li.region) == t),
        None => assert!(li == before, "false leaves the identifier unchanged"),
    }
    core::mem::forget((li, before));
}
}
