//! C12 — equality, ordering and hashing agree with the canonical string.
use crate::h;
use crate::k;
use crate::spec;
use crate::sym;
use std::cmp::Ordering;
use std::hash::{Hash, Hasher};
use unic_langid_impl::LanguageIdentifier;

/// A fixed, deterministic 64-bit hasher so that "hash equally" is decidable.  Rotate-xor mixing with a
/// write counter (no multiplications: a chain of ~250 symbolic 64-bit multiplies, as FNV-1a needs for one
/// identifier, stalls both CBMC's simplifier and the SAT solver; measured: no verdict in 30 min).
/// Every `write_*` call of the derived `Hash` impls contributes its value *and* its position, so two
/// values hash equally here only if they issue the same sequence of writes up to xor-collisions the
/// solver is free to search for.
pub struct Fnv(pub u64, pub u64);
impl Fnv {
    #[inline(always)]
    fn mix(&mut self, x: u64) {
        self.1 += 1;
        self.0 = self.0.rotate_left(7) ^ x ^ (self.1 << 48);
    }
}
impl Hasher for Fnv {
    fn finish(&self) -> u64 {
        self.0
    }
    fn write(&mut self, bytes: &[u8]) {
        let mut i = 0;
        while i < bytes.len() {
            self.mix(bytes[i] as u64);
            i += 1;
        }
    }
    fn write_u8(&mut self, i: u8) {
        self.mix(0x100 | i as u64)
    }
    fn write_u32(&mut self, i: u32) {
        self.mix(i as u64)
    }
    fn write_u64(&mut self, i: u64) {
        self.mix(i)
    }
    fn write_usize(&mut self, i: usize) {
        self.mix(i as u64)
    }
    fn write_isize(&mut self, i: isize) {
        self.mix(i as u64)
    }
}
pub fn fnv<T: Hash>(x: &T) -> u64 {
    let mut h = Fnv(0xcbf29ce484222325, 0);
    x.hash(&mut h);
    h.finish()
}

fn ord_i8(o: Ordering) -> i8 {
    match o {
        Ordering::Less => -1,
        Ordering::Equal => 0,
        Ordering::Greater => 1,
    }
}

fn eq_ord(maxv: usize) {
    let (x, mx) = sym::any_langid(maxv);
    let (y, my) = sym::any_langid(maxv);
    let eq = x == y;
    let want_eq = spec::langid_eq(&mx, &my);
    cover!(eq && mx.nvariants > 0);
    cover!(!eq);
    assert!(eq == want_eq, "== is equality of the canonical subtags");
    let c = ord_i8(x.cmp(&y));
    let want_c = spec::langid_cmp(&mx, &my);
    cover!(c < 0 && mx.script.is_none() && my.script.is_some());
    assert!(c == want_c, "cmp == language, script, region, variants field by field, absent first");
    assert!((c == 0) == eq, "Equal iff ==");
    assert!(ord_i8(y.cmp(&x)) == -c, "antisymmetric");
    assert!(x.partial_cmp(&y) == Some(x.cmp(&y)));
    core::mem::forget(x);
    core::mem::forget(y);
}

use unic_locale_impl::extensions::{PrivateExtensionList, TransformExtensionList, UnicodeExtensionList};

fn umodel_eq(a: &crate::xspec::UModel, b: &crate::xspec::UModel) -> bool {
    if a.nattrs != b.nattrs || a.kw.nkeys != b.kw.nkeys {
        return false;
    }
    let mut i = 0;
    while i < spec::VMAX {
        if i < a.nattrs && !spec::txt_eq(&a.attrs[i], &b.attrs[i]) {
            return false;
        }
        i += 1;
    }
    let mut i = 0;
    while i < crate::xspec::KMAX {
        if i < a.kw.nkeys {
            if !spec::txt_eq(&a.kw.keys[i], &b.kw.keys[i]) || a.kw.nvals[i] != b.kw.nvals[i] {
                return false;
            }
            let mut j = 0;
            while j < crate::xspec::TYMAX {
                if j < a.kw.nvals[i] && !spec::txt_eq(&a.kw.vals[i][j], &b.kw.vals[i][j]) {
                    return false;
                }
                j += 1;
            }
        }
        i += 1;
    }
    true
}

/// two -u- lists parsed from length-profiled frames: == iff the models (hence the canonical strings, C04)
/// are equal; Equal iff ==; antisymmetric; equal values hash equally
fn ulist_eq<const K: usize>(lens: [usize; K]) {
    let ta = h::toks_len(lens);
    let tb = h::toks_len(lens);
    h::note_toks(&ta);
    h::note_toks(&tb);
    let (ma, _, oa) = crate::xspec::parse_u(&spec::infos(&ta), 0);
    let (mb, _, ob) = crate::xspec::parse_u(&spec::infos(&tb), 0);
    k::assume(!oa && !ob);
    let (a, _) = h::parse_ulist_tokens(&ta);
    let (b, _) = h::parse_ulist_tokens(&tb);
    if let (Ok(a), Ok(b), Ok(ma), Ok(mb)) = (&a, &b, &ma, &mb) {
        let eq = a == b;
        cover!(eq && !a.is_empty());
        cover!(!eq);
        assert!(eq == umodel_eq(ma, mb), "== iff same attributes and keywords (same canonical string)");
        let c = a.cmp(b);
        assert!((c == Ordering::Equal) == eq, "Equal iff ==");
        assert!(b.cmp(a) == c.reverse(), "antisymmetric");
        assert!(a.partial_cmp(b) == Some(c));
        if eq {
            assert!(fnv(a) == fnv(b), "equal values hash equally");
        }
    }
    core::mem::forget((a, b));
}

proofs! {

[push, sortt] fn c12_ulist_eq_3_3() { ulist_eq([3, 3]) }
[push, sortt] fn c12_ulist_eq_2_3() { ulist_eq([2, 3]) }

// route independence for the extension lists: add then remove == never added (==, hash, Equal)
[insrem, push, sortt] fn c12_routes_ext() {
    let d = UnicodeExtensionList::default();
    let mut u = UnicodeExtensionList::default();
    let t = sym::tok_len(4);
    sym::note("attr", &t);
    if u.set_attribute(t.bytes()).is_ok() {
        cover!(true);
        assert!(u != d);
        assert!(u.remove_attribute(t.bytes()) == Ok(true));
        assert!(u == d && fnv(&u) == fnv(&d) && u.cmp(&d) == Ordering::Equal, "attribute added then removed == never added");
    }
    let dp = PrivateExtensionList::default();
    let mut p = PrivateExtensionList::default();
    if p.add_tag(t.bytes()).is_ok() {
        assert!(p != dp);
        assert!(p.remove_tag(t.bytes()) == Ok(true));
        assert!(p == dp && fnv(&p) == fnv(&dp) && p.cmp(&dp) == Ordering::Equal, "tag added then removed == never added");
    }
    core::mem::forget((u, d, p, dp));
}
[push, sortt] fn c12_routes_keyword() {
    let d = UnicodeExtensionList::default();
    let mut u = UnicodeExtensionList::default();
    let key = sym::tok_len(2);
    let v = sym::tok_len(3);
    sym::note("key", &key);
    let arr: [&[u8]; 1] = [v.bytes()];
    if u.set_keyword(key.bytes(), &arr).is_ok() {
        cover!(true);
        assert!(u != d);
        assert!(u.remove_keyword(key.bytes()) == Ok(true));
        assert!(u == d && fnv(&u) == fnv(&d) && u.cmp(&d) == Ordering::Equal, "keyword set then removed == never set");
        assert!(u.is_empty());
    }
    core::mem::forget((u, d));
}

[] fn c12_langid_eq_ord_v1() { eq_ord(1) }
[] fn c12_langid_eq_ord_v2() { eq_ord(2) }

[] fn c12_langid_hash() {
    let (x, mx) = sym::any_langid(2);
    let (y, my) = sym::any_langid(2);
    k::assume(spec::langid_eq(&mx, &my));
    cover!(mx.nvariants == 2);
    assert!(x == y);
    assert!(fnv(&x) == fnv(&y), "equal values hash equally");
    core::mem::forget(x);
    core::mem::forget(y);
}

[] fn c12_langid_ord_transitive() {
    let (x, _) = sym::any_langid(1);
    let (y, _) = sym::any_langid(1);
    let (z, _) = sym::any_langid(1);
    let xy = x.cmp(&y);
    let yz = y.cmp(&z);
    cover!(xy == Ordering::Less && yz == Ordering::Less);
    if xy != Ordering::Greater && yz != Ordering::Greater {
        let xz = x.cmp(&z);
        assert!(xz != Ordering::Greater, "transitive");
        if xy == Ordering::Less || yz == Ordering::Less {
            assert!(xz == Ordering::Less);
        }
    }
    core::mem::forget(x);
    core::mem::forget(y);
    core::mem::forget(z);
}

// route independence: the same logical value reached along different routes is ==, hashes equally,
// compares Equal (breaks if "no variants" gains a second representation)
[sortv, boxed, tovec] fn c12_routes_no_variants() {
    let (x, _m) = sym::any_langid(2);
    let untouched = LanguageIdentifier::from_raw_parts_unchecked(x.language, x.script, x.region, None);
    let mut set_empty = x.clone();
    set_empty.set_variants(&[]);
    let mut cleared = x.clone();
    cleared.clear_variants();
    let parts_empty = LanguageIdentifier::from_parts(x.language, x.script, x.region, &[]);
    cover!(x.variants().len() == 2);
    assert!(set_empty == untouched && cleared == untouched && parts_empty == untouched, "one representation of 'no variants' on every route");
    assert!(fnv(&set_empty) == fnv(&untouched) && fnv(&cleared) == fnv(&untouched) && fnv(&parts_empty) == fnv(&untouched), "equal values hash equally");
    assert!(set_empty.cmp(&untouched) == Ordering::Equal && cleared.cmp(&untouched) == Ordering::Equal && parts_empty.cmp(&untouched) == Ordering::Equal);
    core::mem::forget((x, untouched, set_empty, cleared, parts_empty));
}

// the one route of the above that *replaces* an existing variant list, on its own (small enough to
// stay decidable when the code under it changes shape): exactly one variant, then set_variants(&[])
[sortv, boxed, tovec] fn c12_route_set_empty_over_one() {
    let (x, _m) = sym::langid_shape(false, true, 1);
    let untouched = LanguageIdentifier::from_raw_parts_unchecked(x.language, x.script, x.region, None);
    let mut set_empty = x.clone();
    set_empty.set_variants(&[]);
    cover!(x.variants().len() == 1);
    assert!(set_empty == untouched, "set_variants(&[]) over existing variants == never had variants");
    assert!(set_empty.cmp(&untouched) == Ordering::Equal);
    assert!(fnv(&set_empty) == fnv(&untouched), "equal values hash equally");
    core::mem::forget((x, untouched, set_empty));
}

// near misses of the canonical text on one concrete identifier (enumerated, not quantified: a cheap
// guard that stays decidable whatever the comparison is rewritten to; the quantified statement is
// c12_langid_eq_str)
[string, push, sortv, boxed] fn c12_eq_str_near_misses() {
    let li = LanguageIdentifier::from_bytes(b"en-US").unwrap();
    cover!(li == "en-US");
    assert!(li == "en-US");
    assert!(!(li == "en-US-valencia") && !(li == "en-US-") && !(li == "en") && !(li == "en-U"), "longer / shorter strings are not equal");
    assert!(!(li == "EN-us") && !(li == "en_US") && !(li == " en-US") && !(li == ""), "non-canonical spellings are not equal");
    core::mem::forget(li);
}

// x == y  <=>  x.to_string() == y.to_string()   (real Display + core::fmt on both sides)
[string] fn c12_langid_eq_iff_string_eq() {
    let (x, mx) = sym::any_langid(1);
    let (y, my) = sym::any_langid(1);
    let sx = x.to_string();
    let sy = y.to_string();
    cover!(sx == sy);
    cover!(sx != sy);
    assert!((x == y) == (sx == sy), "x == y iff the canonical strings are equal");
    core::mem::forget((x, y, sx, sy));
}

// li == &str  <=>  the string equals the canonical text
[string] fn c12_langid_eq_str() {
    let (x, mx) = sym::any_langid(1);
    let buf: [u8; 16] = k::bytes();
    let n = k::usize();
    k::assume(n <= 16);
    let mut i = 0;
    while i < 16 {
        k::assume(buf[i] < 0x80);
        i += 1;
    }
    let s: &str = unsafe { core::str::from_utf8_unchecked(&buf[..n]) };
    let mut want = [0u8; 40];
    let mut pos = 0;
    spec::write_langid(&mut want, &mut pos, &mx);
    let same = pos == n && {
        let mut ok = true;
        let mut j = 0;
        while j < 16 {
            if j < n && want[j] != buf[j] {
                ok = false;
            }
            j += 1;
        }
        ok
    };
    cover!(same && n > 8);
    cover!(!same && pos == n);
    assert!((x == s) == same, "comparison with &str is true iff the string is the canonical text");
    core::mem::forget(x);
}

}
