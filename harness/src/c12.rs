//! C12 — equality, ordering and hashing agree with the canonical string.
use crate::h;
use crate::k;
use crate::spec;
use crate::sym;
use std::cmp::Ordering;
use std::hash::{Hash, Hasher};
use unic_langid_impl::LanguageIdentifier;

/// 64-bit FNV-1a: a fixed, deterministic hasher so that "hash equally" is decidable
pub struct Fnv(pub u64);
impl Hasher for Fnv {
    fn finish(&self) -> u64 {
        self.0
    }
    fn write(&mut self, bytes: &[u8]) {
        let mut i = 0;
        while i < bytes.len() {
            self.0 = (self.0 ^ bytes[i] as u64).wrapping_mul(0x100000001b3);
            i += 1;
        }
    }
}
pub fn fnv<T: Hash>(x: &T) -> u64 {
    let mut h = Fnv(0xcbf29ce484222325);
    x.hash(&mut h);
    h.finish()
}

fn ord_i8(o: Ordering) -> i8 {
    match o {
        Ordering::Less => -1,
        Ordering::Equal => 0,
        Ordering::Greater => 1,
    }
}

fn eq_ord(maxv: usize) {
    let (x, mx) = sym::any_langid(maxv);
    let (y, my) = sym::any_langid(maxv);
    let eq = x == y;
    let want_eq = spec::langid_eq(&mx, &my);
    cover!(eq && mx.nvariants > 0);
    cover!(!eq);
    assert!(eq == want_eq, "== is equality of the canonical subtags");
    let c = ord_i8(x.cmp(&y));
    let want_c = spec::langid_cmp(&mx, &my);
    cover!(c < 0 && mx.script.is_none() && my.script.is_some());
    assert!(c == want_c, "cmp == language, script, region, variants field by field, absent first");
    assert!((c == 0) == eq, "Equal iff ==");
    assert!(ord_i8(y.cmp(&x)) == -c, "antisymmetric");
    assert!(x.partial_cmp(&y) == Some(x.cmp(&y)));
    core::mem::forget(x);
    core::mem::forget(y);
}

proofs! {

[] fn c12_langid_eq_ord_v1() { eq_ord(1) }
[] fn c12_langid_eq_ord_v2() { eq_ord(2) }

[] fn c12_langid_hash() {
    let (x, mx) = sym::any_langid(2);
    let (y, my) = sym::any_langid(2);
    k::assume(spec::langid_eq(&mx, &my));
    cover!(mx.nvariants == 2);
    assert!(x == y);
    assert!(fnv(&x) == fnv(&y), "equal values hash equally");
    core::mem::forget(x);
    core::mem::forget(y);
}

[] fn c12_langid_ord_transitive() {
    let (x, _) = sym::any_langid(1);
    let (y, _) = sym::any_langid(1);
    let (z, _) = sym::any_langid(1);
    let xy = x.cmp(&y);
    let yz = y.cmp(&z);
    cover!(xy == Ordering::Less && yz == Ordering::Less);
    if xy != Ordering::Greater && yz != Ordering::Greater {
        let xz = x.cmp(&z);
        assert!(xz != Ordering::Greater, "transitive");
        if xy == Ordering::Less || yz == Ordering::Less {
            assert!(xz == Ordering::Less);
        }
    }
    core::mem::forget(x);
    core::mem::forget(y);
    core::mem::forget(z);
}

// route independence: the same logical value reached along different routes is ==, hashes equally,
// compares Equal (breaks if "no variants" gains a second representation)
[sortv, boxed, tovec] fn c12_routes_no_variants() {
    let (x, _m) = sym::any_langid(2);
    let untouched = LanguageIdentifier::from_raw_parts_unchecked(x.language, x.script, x.region, None);
    let mut set_empty = x.clone();
    set_empty.set_variants(&[]);
    let mut cleared = x.clone();
    cleared.clear_variants();
    let parts_empty = LanguageIdentifier::from_parts(x.language, x.script, x.region, &[]);
    cover!(x.variants().len() == 2);
    assert!(set_empty == untouched && cleared == untouched && parts_empty == untouched, "one representation of 'no variants' on every route");
    assert!(fnv(&set_empty) == fnv(&untouched) && fnv(&cleared) == fnv(&untouched) && fnv(&parts_empty) == fnv(&untouched), "equal values hash equally");
    assert!(set_empty.cmp(&untouched) == Ordering::Equal && cleared.cmp(&untouched) == Ordering::Equal && parts_empty.cmp(&untouched) == Ordering::Equal);
    core::mem::forget((x, untouched, set_empty, cleared, parts_empty));
}

// x == y  <=>  x.to_string() == y.to_string()   (real Display + core::fmt on both sides)
[string] fn c12_langid_eq_iff_string_eq() {
    let (x, mx) = sym::any_langid(1);
    let (y, my) = sym::any_langid(1);
    let sx = x.to_string();
    let sy = y.to_string();
    cover!(sx == sy);
    cover!(sx != sy);
    assert!((x == y) == (sx == sy), "x == y iff the canonical strings are equal");
    core::mem::forget((x, y, sx, sy));
}

// li == &str  <=>  the string equals the canonical text
[string] fn c12_langid_eq_str() {
    let (x, mx) = sym::any_langid(1);
    let buf: [u8; 16] = k::bytes();
    let n = k::usize();
    k::assume(n <= 16);
    let mut i = 0;
    while i < 16 {
        k::assume(buf[i] < 0x80);
        i += 1;
    }
    let s: &str = unsafe { core::str::from_utf8_unchecked(&buf[..n]) };
    let mut want = [0u8; 40];
    let mut pos = 0;
    spec::write_langid(&mut want, &mut pos, &mx);
    let same = pos == n && {
        let mut ok = true;
        let mut j = 0;
        while j < 16 {
            if j < n && want[j] != buf[j] {
                ok = false;
            }
            j += 1;
        }
        ok
    };
    cover!(same && n > 8);
    cover!(!same && pos == n);
    assert!((x == s) == same, "comparison with &str is true iff the string is the canonical text");
    core::mem::forget(x);
}

}
