//! C11 — matches() implements missing-subtag-as-wildcard semantics.
use crate::spec;
use crate::sym;
use crate::k;
use unic_langid_impl::subtags::Language;
use unic_langid_impl::LanguageIdentifier;
use unic_locale_impl::Locale;

/// the defining formula, for symbolic operands and flags (one call of the real function)
fn formula(maxv: usize) {
    let (a, ma) = sym::any_langid(maxv);
    let (b, mb) = sym::any_langid(maxv);
    let ra = k::bool();
    let rb = k::bool();
    let got = a.matches(&b, ra, rb);
    let want = spec::langid_matches(&ma, &mb, ra, rb);
    cover!(got && !spec::langid_eq(&ma, &mb));
    cover!(!got && ra && rb);
    assert!(got == want, "matches == field-wise (range and empty) or equal");
    core::mem::forget(a);
    core::mem::forget(b);
}

/// the derived laws, asserted on the real function itself
fn laws(maxv: usize) {
    let (a, _ma) = sym::any_langid(maxv);
    let (b, _mb) = sym::any_langid(maxv);
    let m00 = a.matches(&b, false, false);
    let m10 = a.matches(&b, true, false);
    let m01 = a.matches(&b, false, true);
    let m11 = a.matches(&b, true, true);
    cover!(m11 && !m10 && !m01);
    assert!(m00 == (a == b), "without range flags matches is equality");
    assert!((!m00 || m10) && (!m00 || m01) && (!m10 || m11) && (!m01 || m11), "switching a flag on never un-matches");
    let ra = k::bool();
    let rb = k::bool();
    let got = if ra { if rb { m11 } else { m10 } } else if rb { m01 } else { m00 };
    assert!(b.matches(&a, rb, ra) == got, "symmetric under swapping operands with their flags");
    assert!(a.matches(&a, ra, rb), "reflexive");
    core::mem::forget(a);
    core::mem::forget(b);
}

proofs! {

[] fn c11_language_matches() {
    let (a, ta) = sym::any_language();
    let (b, tb) = sym::any_language();
    let ra = k::bool();
    let rb = k::bool();
    let ea = spec::txt_eq(&ta, &spec::UND);
    let eb = spec::txt_eq(&tb, &spec::UND);
    let want = (ra && ea) || (rb && eb) || spec::txt_eq(&ta, &tb);
    cover!(want && !spec::txt_eq(&ta, &tb));
    assert!(a.matches(b, ra, rb) == want, "Language::matches treats und as the wildcard of the side flagged as range");
    assert!(a.matches(&b, ra, rb) == want);
}

// Locale::matches: false whenever either side has private-use subtags, otherwise the
// language-identifier result, ignoring -u- content; LanguageIdentifier vs &Locale directly
[push, sortt] fn c11_locale_matches() {
    let (a, ma) = sym::any_langid(1);
    let (b, mb) = sym::any_langid(1);
    let a2 = a.clone();
    let mut la = Locale::from(a);
    let mut lb = Locale::from(b);
    // optional private-use tag / -u- attribute on each side (argument fully symbolic: only valid ones stick)
    let ta = sym::tok9();
    let tb = sym::tok9();
    let ua = sym::tok9();
    let pa = k::bool() && la.extensions.private.add_tag(ta.bytes()).is_ok();
    let pb = k::bool() && lb.extensions.private.add_tag(tb.bytes()).is_ok();
    let _ = la.extensions.unicode.set_attribute(ua.bytes());
    let ra = k::bool();
    let rb = k::bool();
    let got = la.matches(&lb, ra, rb);
    let idm = spec::langid_matches(&ma, &mb, ra, rb);
    cover!(pa && !pb);
    cover!(!pa && !pb && got);
    assert!(pa == !la.extensions.private.is_empty() && pb == !lb.extensions.private.is_empty());
    if pa || pb {
        assert!(!got, "private-use subtags on either side: never a match");
    } else {
        assert!(got == idm, "otherwise the language-identifier result, ignoring -u-/-t- content");
    }
    assert!(a2.matches(&lb, ra, rb) == idm, "a LanguageIdentifier matched against a Locale uses the Locale's id");
    core::mem::forget((la, lb, a2));
}

[] fn c11_langid_formula_v1() { formula(1) }
[] fn c11_langid_formula_v2() { formula(2) }
[] fn c11_langid_laws_v1() { laws(1) }

}
