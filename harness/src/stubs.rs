//! Models of std functions CBMC cannot carry on symbolic-length data (DESIGN 2.3).
//! Only compiled under `cfg(kani)`; applied per harness with `#[kani::stub]`.
//! Each model replaces *std* code only: the call sites stay in /repo's code, so
//! removing or moving a `sort_unstable()` / `dedup()` / `push()` there is still
//! visible to the solver.
use std::alloc::Allocator;

/// fixed capacity handed out on the first push (a checked bound: exceeding it is
/// an assertion failure, never silent truncation)
pub const CAP: usize = 4;

/// `Vec::push`: first push allocates a fixed-capacity buffer, later pushes write
/// in place.  Avoids `grow_amortized` on a symbolic capacity.
pub fn push<T, A: Allocator>(v: &mut Vec<T, A>, x: T) {
    unsafe {
        if v.capacity() == 0 {
            let a: A = std::ptr::read(v.allocator());
            std::ptr::write(v, Vec::with_capacity_in(CAP, a));
        }
        let len = v.len();
        assert!(len < v.capacity(), "push model: capacity bound exceeded");
        std::ptr::write(v.as_mut_ptr().add(len), x);
        v.set_len(len + 1);
    }
}

/// `<[T]>::sort_unstable`: insertion sort using the element type's own `Ord`
pub fn sort_unstable<T: Ord>(s: &mut [T]) {
    let n = s.len();
    let mut i = 1;
    while i < n {
        let mut j = i;
        while j > 0 && s[j - 1] > s[j] {
            s.swap(j - 1, j);
            j -= 1;
        }
        i += 1;
    }
}

/// `Vec::into_boxed_slice` without the shrinking `realloc`
pub fn into_boxed_slice<T, A: Allocator>(v: Vec<T, A>) -> Box<[T], A> {
    let (ptr, len, _cap, a) = v.into_raw_parts_with_allocator();
    unsafe { Box::from_raw_in(std::ptr::slice_from_raw_parts_mut(ptr, len), a) }
}

/// `<[T]>::to_vec` into a fixed-capacity buffer
pub fn to_vec<T: Clone>(s: &[T]) -> Vec<T> {
    let mut v: Vec<T> = Vec::with_capacity(CAP);
    assert!(s.len() <= CAP, "to_vec model: capacity bound exceeded");
    let mut i = 0;
    while i < s.len() {
        unsafe {
            std::ptr::write(v.as_mut_ptr().add(i), s[i].clone());
        }
        i += 1;
    }
    unsafe { v.set_len(s.len()) };
    v
}

/// `alloc::fmt::format` in harnesses whose subject is not formatting
pub fn format(_a: std::fmt::Arguments<'_>) -> String {
    String::new()
}
