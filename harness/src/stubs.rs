//! Models of std functions CBMC cannot carry on symbolic-length data (DESIGN 2.3).
//! Only compiled under `cfg(kani)`; applied per harness with `#[kani::stub]`.
//! Each model replaces *std* code only: the call sites stay in /repo's code, so
//! removing or moving a `sort_unstable()` / `dedup()` / `push()` there is still
//! visible to the solver.
use std::alloc::Allocator;

/// fixed capacity handed out on the first push (a checked bound: exceeding it is
/// an assertion failure, never silent truncation)
pub const CAP: usize = 4;

/// `Vec::push`: first push allocates a fixed-capacity buffer, later pushes write
/// in place.  Avoids `grow_amortized` on a symbolic capacity.
pub fn push<T, A: Allocator>(v: &mut Vec<T, A>, x: T) {
    unsafe {
        if v.capacity() == 0 {
            let a: A = std::ptr::read(v.allocator());
            std::ptr::write(v, Vec::with_capacity_in(CAP, a));
        }
        let len = v.len();
        assert!(len < v.capacity(), "push model: capacity bound exceeded");
        std::ptr::write(v.as_mut_ptr().add(len), x);
        v.set_len(len + 1);
    }
}

/// `<[T]>::sort_unstable` for slices of at most `CAP` (= 4) elements: the optimal 5-comparator
/// sorting network, each comparator guarded by `j < len` (missing elements act as +infinity, which
/// a network keeps at the end).  Uses the element type's own `Ord`.  A loop-free model matters:
/// an insertion sort over a symbolic length is unrolled to its bound by CBMC (55 inner iterations
/// of an 8-byte comparison for a one-element vector was 70 % of all symbolic-execution steps).
pub fn sort_unstable<T: Ord>(s: &mut [T]) {
    let n = s.len();
    assert!(n <= CAP, "sort model: capacity bound exceeded");
    cx(s, 0, 1, n);
    cx(s, 2, 3, n);
    cx(s, 0, 2, n);
    cx(s, 1, 3, n);
    cx(s, 1, 2, n);
}
#[inline(never)]
fn cx<T: Ord>(s: &mut [T], i: usize, j: usize, n: usize) {
    if j < n && s[i] > s[j] {
        s.swap(i, j);
    }
}

/// `Vec::into_boxed_slice` without `realloc` on a symbolic size: the elements move into a fresh buffer
/// of exactly `len` elements, chosen among the concrete sizes 0..=CAP (so the resulting `Box<[T]>`
/// can be dropped by the code under test: Kani checks that `dealloc` sees the allocated layout).
pub fn into_boxed_slice<T, A: Allocator>(v: Vec<T, A>) -> Box<[T], A> {
    let (ptr, len, cap, a) = v.into_raw_parts_with_allocator();
    if len == cap {
        return unsafe { Box::from_raw_in(std::ptr::slice_from_raw_parts_mut(ptr, len), a) };
    }
    assert!(len <= CAP, "into_boxed_slice model: capacity bound exceeded");
    unsafe {
        let a2: A = std::ptr::read(&a);
        let mut w: Vec<T, A> = match len {
            0 => Vec::with_capacity_in(0, a),
            1 => Vec::with_capacity_in(1, a),
            2 => Vec::with_capacity_in(2, a),
            3 => Vec::with_capacity_in(3, a),
            _ => Vec::with_capacity_in(CAP, a),
        };
        let dst = w.as_mut_ptr();
        let mut i = 0;
        while i < CAP {
            if i < len {
                std::ptr::write(dst.add(i), std::ptr::read(ptr.add(i)));
            }
            i += 1;
        }
        w.set_len(len);
        drop(Vec::from_raw_parts_in(ptr, 0, cap, a2)); // frees the old buffer, no element drops
        let (p2, l2, _c2, a3) = w.into_raw_parts_with_allocator();
        Box::from_raw_in(std::ptr::slice_from_raw_parts_mut(p2, l2), a3)
    }
}

/// `Vec::insert` / `Vec::remove` without `memmove` of a symbolic size (array theory in CBMC; measured:
/// two symbolic attribute operations did not finish in 27 min / 12 GB): element-wise shifts over the
/// fixed capacity.  Same panics as std (index out of bounds).
pub fn insert<T, A: Allocator>(v: &mut Vec<T, A>, index: usize, x: T) {
    unsafe {
        if v.capacity() == 0 {
            let a: A = std::ptr::read(v.allocator());
            std::ptr::write(v, Vec::with_capacity_in(CAP, a));
        }
        let len = v.len();
        assert!(index <= len, "insertion index (is {index}) should be <= len (is {len})");
        assert!(len < v.capacity(), "insert model: capacity bound exceeded");
        let p = v.as_mut_ptr();
        let mut j = CAP - 1;
        while j > 0 {
            if j <= len && j > index {
                std::ptr::write(p.add(j), std::ptr::read(p.add(j - 1)));
            }
            j -= 1;
        }
        std::ptr::write(p.add(index), x);
        v.set_len(len + 1);
    }
}
pub fn remove<T, A: Allocator>(v: &mut Vec<T, A>, index: usize) -> T {
    unsafe {
        let len = v.len();
        assert!(index < len, "removal index (is {index}) should be < len (is {len})");
        assert!(len <= CAP, "remove model: capacity bound exceeded");
        let p = v.as_mut_ptr();
        let out = std::ptr::read(p.add(index));
        let mut j = 0;
        while j + 1 < CAP {
            if j >= index && j + 1 < len {
                std::ptr::write(p.add(j), std::ptr::read(p.add(j + 1)));
            }
            j += 1;
        }
        v.set_len(len - 1);
        out
    }
}

/// `<[T]>::to_vec` into a fixed-capacity buffer
pub fn to_vec<T: Clone>(s: &[T]) -> Vec<T> {
    let mut v: Vec<T> = Vec::with_capacity(CAP);
    assert!(s.len() <= CAP, "to_vec model: capacity bound exceeded");
    let mut i = 0;
    while i < s.len() {
        unsafe {
            std::ptr::write(v.as_mut_ptr().add(i), s[i].clone());
        }
        i += 1;
    }
    unsafe { v.set_len(s.len()) };
    v
}

/// `alloc::fmt::format` in harnesses whose subject is not formatting
pub fn format(_a: std::fmt::Arguments<'_>) -> String {
    String::new()
}

/// capacity of the string buffer handed out on first use
pub const SCAP: usize = 64;

/// `String::push_str` / `String::push` without `grow_amortized` on a symbolic length (same reason
/// as `push`): fixed buffer, checked bound, byte-wise copy
pub fn push_str(s: &mut String, t: &str) {
    unsafe {
        let v = s.as_mut_vec();
        if v.capacity() == 0 {
            std::ptr::write(v, Vec::with_capacity(SCAP));
        }
        let len = v.len();
        let n = t.len();
        let cap = v.capacity();
        assert!(len + n <= cap, "push_str model: capacity bound exceeded");
        let src = t.as_bytes();
        // indexed writes into the whole buffer (no per-byte pointer arithmetic: Kani's model of
        // `ptr::add` costs ~30 symbolic-execution steps per byte)
        let buf: &mut [u8] = std::slice::from_raw_parts_mut(v.as_mut_ptr(), cap);
        let mut i = 0;
        while i < n {
            buf[len + i] = src[i];
            i += 1;
        }
        v.set_len(len + n);
    }
}
pub fn push_char(s: &mut String, c: char) {
    assert!((c as u32) < 0x80, "push model: ASCII only");
    unsafe {
        let v = s.as_mut_vec();
        if v.capacity() == 0 {
            std::ptr::write(v, Vec::with_capacity(SCAP));
        }
        let len = v.len();
        let cap = v.capacity();
        assert!(len < cap, "push model: capacity bound exceeded");
        let buf: &mut [u8] = std::slice::from_raw_parts_mut(v.as_mut_ptr(), cap);
        buf[len] = c as u8;
        v.set_len(len + 1);
    }
}

/// A deliberate *cut*, not a model: replaces the crate-private `ExtensionsMap::try_from_iter` in the
/// byte-level glue harnesses of C13.  For an exhausted iterator it returns what the real function
/// returns (decided by `c13_extmap_exhausted`); every path on which subtags are left for the extension
/// parser is ended with `assume(false)`.  What remains under the solver is the real `parse_locale`
/// glue (split, permissive language-identifier parse, hand-over, `Locale` construction) on all inputs
/// that carry no extension - the inputs the first clause of C13 is about.  Inputs with extensions are
/// outside these harnesses (C03 frames).
pub fn ext_cut<'a>(
    iter: &mut std::iter::Peekable<impl Iterator<Item = &'a [u8]>>,
) -> Result<unic_locale_impl::extensions::ExtensionsMap, unic_locale_impl::parser::ParserError> {
    if iter.peek().is_none() {
        Ok(unic_locale_impl::extensions::ExtensionsMap::default())
    } else {
        kani::assume(false);
        unreachable!()
    }
}
