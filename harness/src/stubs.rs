//! Models of std functions CBMC cannot carry on symbolic-length data (DESIGN 2.3).
