//! C06 — maximize returns the CLDR likely-subtags answer for every input.
//! C07 — maximize only adds subtags, fills all three, and is idempotent.
#![cfg(feature = "likelysubtags")]
use crate::gen::likely::*;
use crate::k;
use crate::lk::{self, Want, RT};
use crate::sym;
use unic_langid_impl::likelysubtags::maximize;
use unic_langid_impl::subtags::{Language, Region, Script};
use unic_langid_impl::LanguageIdentifier;

const UND_INT: u64 = 0x646e75; // "und"

fn lang(v: u64) -> Language {
    unsafe { Language::from_raw_unchecked(v) }
}
fn script(v: u32) -> Script {
    unsafe { Script::from_raw_unchecked(v) }
}
fn region(v: u32) -> Region {
    unsafe { Region::from_raw_unchecked(v) }
}
fn got_rt(g: Option<lk::Triple>) -> Option<RT> {
    g.map(|t| lk::rt_of(&t))
}

/// the undetermined language as a *concrete* value (so that CBMC prunes the language branch of
/// the cascade, which drags in the 7143-row table), or any non-empty language
fn any_lang(und: bool) -> Language {
    if und {
        Language::default()
    } else {
        let (l, _) = sym::any_language();
        k::assume(!l.is_empty());
        l
    }
}

/// as `cascade`, for one *concrete* language (binary searches keyed by it are then decided by
/// constant propagation, so the 7143-row table costs nothing): a known language with entries in the
/// language-region / language-script tables, and an unknown representative
fn cascade_for(lang_text: &[u8], known: bool) {
    let l = Language::from_bytes(lang_text).unwrap();
    cascade_with(l, known)
}
fn cascade(und: bool) {
    cascade_with(any_lang(und), true)
}

/// arbitrary (language, script?, region?) vs the reference cascade
fn cascade_with(l: Language, known: bool) {
    let (s, _) = sym::opt_script();
    let (r, _) = sym::opt_region();
    let q = lk::rt_of(&(l, s, r));
    let got = maximize(l, s, r);
    let want = lk::reference_maximize(q);
    cover!(!known || (got.is_some() && s.is_some()));
    cover!(!known || (got.is_some() && r.is_some() && s.is_none()));
    cover!(known || (got.is_none() && s.is_some() && r.is_none()));
    match want {
        Want::Found(v) => assert!(got_rt(got) == Some(v), "result is the value of the most specific matching entry with every given subtag kept"),
        Want::NotFound => assert!(got.is_none(), "unchanged exactly when all three are present or no entry matches"),
        Want::Either => {
            // the library may report 'unchanged' or apply a UTS #35 fallback; a fallback value must
            // still keep every subtag that was given
            if let Some(v) = got_rt(got) {
                assert!(lk::keeps_given(&q, &v), "a fallback answer keeps every given subtag and fills all three");
            }
        }
    }
}

proofs! {

// ---- every entry K -> V (symbolic row index = all rows, no loop) ----
[] fn c06_kv_region_only() {
    let i = k::usize();
    k::assume(i < REF_REGION_ONLY_K0.len());
    let got = maximize(Language::default(), None, Some(region(REF_REGION_ONLY_K0[i])));
    cover!(i == 100);
    assert!(got_rt(got) == Some(RT { l: REF_REGION_ONLY_VL[i], s: REF_REGION_ONLY_VS[i], r: REF_REGION_ONLY_VR[i] }));
}
[] fn c06_kv_script_only() {
    let i = k::usize();
    k::assume(i < REF_SCRIPT_ONLY_K0.len());
    let got = maximize(Language::default(), Some(script(REF_SCRIPT_ONLY_K0[i])), None);
    cover!(i == 100);
    assert!(got_rt(got) == Some(RT { l: REF_SCRIPT_ONLY_VL[i], s: REF_SCRIPT_ONLY_VS[i], r: REF_SCRIPT_ONLY_VR[i] }));
}
[] fn c06_kv_script_region() {
    let i = k::usize();
    k::assume(i < REF_SCRIPT_REGION_K0.len());
    let got = maximize(Language::default(), Some(script(REF_SCRIPT_REGION_K0[i])), Some(region(REF_SCRIPT_REGION_K1[i])));
    cover!(i == 100);
    assert!(got_rt(got) == Some(RT { l: REF_SCRIPT_REGION_VL[i], s: REF_SCRIPT_REGION_VS[i], r: REF_SCRIPT_REGION_VR[i] }));
}
[] fn c06_kv_lang_region() {
    let i = k::usize();
    k::assume(i < REF_LANG_REGION_K0.len());
    let got = maximize(lang(REF_LANG_REGION_K0[i]), None, Some(region(REF_LANG_REGION_K1[i])));
    cover!(i == 50);
    assert!(got_rt(got) == Some(RT { l: REF_LANG_REGION_VL[i], s: REF_LANG_REGION_VS[i], r: REF_LANG_REGION_VR[i] }));
}
[] fn c06_kv_lang_script() {
    let i = k::usize();
    k::assume(i < REF_LANG_SCRIPT_K0.len());
    let got = maximize(lang(REF_LANG_SCRIPT_K0[i]), Some(script(REF_LANG_SCRIPT_K1[i])), None);
    cover!(i == 100);
    assert!(got_rt(got) == Some(RT { l: REF_LANG_SCRIPT_VL[i], s: REF_LANG_SCRIPT_VS[i], r: REF_LANG_SCRIPT_VR[i] }));
}
[] fn c06_kv_lang_only() {
    let i = k::usize();
    k::assume(i < REF_LANG_ONLY_K0.len());
    k::assume(REF_LANG_ONLY_K0[i] != UND_INT); // the bare 'und' key is outside the property
    let got = maximize(lang(REF_LANG_ONLY_K0[i]), None, None);
    cover!(i == 7000);
    assert!(got_rt(got) == Some(RT { l: REF_LANG_ONLY_VL[i], s: REF_LANG_ONLY_VS[i], r: REF_LANG_ONLY_VR[i] }));
}

// ---- arbitrary triples vs the reference cascade ----
[] fn c06_cascade_und() { cascade(true) }
[] fn c06_cascade_zh() { cascade_for(b"zh", true) }
[] fn c06_cascade_sr() { cascade_for(b"sr", true) }
[] fn c06_cascade_unknown_qaa() { cascade_for(b"qaa", false) }
[] fn c06_cascade_lang() { cascade(false) }

// ---- the LanguageIdentifier wrapper ----
[] fn c06_wrapper_und() {
    let (mut li, _m) = sym::any_langid(1);
    li.language = Language::default();
    let before = (li.language, li.script, li.region);
    let want = maximize(before.0, before.1, before.2);
    let changed = li.maximize();
    cover!(changed);
    cover!(!changed);
    assert!(changed == want.is_some(), "bool reports whether an entry was found");
    match want {
        Some(t) => assert!((li.language, li.script, li.region) == t, "writes the triple back"),
        None => assert!((li.language, li.script, li.region) == before, "false leaves the identifier unchanged"),
    }
    core::mem::forget(li);
}

}

pub mod c07 {
    use super::*;

    /// algebraic laws of one `maximize` call on an arbitrary triple
    fn laws(und: bool) {
        let l = any_lang(und);
        let (s, _) = sym::opt_script();
        let (r, _) = sym::opt_region();
        let got = maximize(l, s, r);
        cover!(got.is_some());
        cover!(got.is_none());
        if let Some((l2, s2, r2)) = got {
            assert!(l.is_empty() || l2 == l, "a language that was present is unchanged");
            assert!(s.is_none() || s2 == s, "a script that was present is unchanged");
            assert!(r.is_none() || r2 == r, "a region that was present is unchanged");
            assert!(!l2.is_empty() && s2.is_some() && r2.is_some(), "all three present afterwards");
            // idempotence = this clause + `c07_full_is_fixpoint` (a triple with all three present is
            // left alone); calling maximize again here on the symbolic result would drag the
            // 7143-row table into every und query
        }
    }

    /// the same laws for one concrete language (cheap: the binary search over the 7143-row table runs
    /// on a constant key), script and region fully symbolic
    fn laws_for(lang: &'static [u8]) {
        let l = Language::from_bytes(lang).unwrap();
        let (s, _) = sym::opt_script();
        let (r, _) = sym::opt_region();
        let got = maximize(l, s, r);
        cover!(got.is_some() || lang.len() == 3);
        cover!(got.is_none());
        if let Some((l2, s2, r2)) = got {
            assert!(l2 == l, "a language that was present is unchanged");
            assert!(s.is_none() || s2 == s, "a script that was present is unchanged");
            assert!(r.is_none() || r2 == r, "a region that was present is unchanged");
            assert!(!l2.is_empty() && s2.is_some() && r2.is_some(), "all three present afterwards");
            // (a second maximize on the symbolic result would search the 7143-row table with a symbolic
            // key - measured out of memory at 8 GB; idempotence is closed by c07_full_is_fixpoint)
        }
    }

    /// a language known to CBMC to be non-empty (concrete `Some` discriminant): rebuilt from its own
    /// integer form, which C17 decides is the identity
    pub fn nonempty_language() -> Language {
        let (l, _) = sym::any_language();
        let raw: Option<u64> = l.into();
        match raw {
            Some(v) => unsafe { Language::from_raw_unchecked(v) },
            None => {
                k::assume(false);
                unreachable!()
            }
        }
    }

    proofs! {
    [] fn c07_laws_und() { laws(true) }
    [] fn c07_laws_lang() { laws(false) }
    [] fn c07_laws_zh() { laws_for(b"zh") }
    [] fn c07_laws_unknown_qaa() { laws_for(b"qaa") }

    // every triple with language, script and region present is a fixed point (reported unchanged)
    [] fn c07_full_is_fixpoint() {
        let l = nonempty_language();
        let (s, _) = sym::any_script();
        let (r, _) = sym::any_region();
        cover!(true);
        assert!(maximize(l, Some(s), Some(r)).is_none(), "nothing to add: unchanged");
        let mut li = LanguageIdentifier::from_raw_parts_unchecked(l, Some(s), Some(r), None);
        let before = li.clone();
        assert!(!li.maximize() && li == before, "LanguageIdentifier::maximize on a full identifier: false, unchanged");
    }

    // wrapper: variants never touched, bool <=> changed, false => unchanged, second application is a no-op
    [] fn c07_wrapper_und() {
        let (mut li, _m) = sym::any_langid(2);
        li.language = Language::default();
        let before = li.clone();
        let changed = li.maximize();
        cover!(changed && before.variants().len() == 2);
        cover!(!changed);
        assert!(li.variants().len() == before.variants().len() && li.variants().zip(before.variants()).all(|(a, b)| a == b), "variants are never touched");
        if changed {
            assert!(li != before, "true means something changed");
            assert!(before.language.is_empty() || li.language == before.language);
            assert!(before.script.is_none() || li.script == before.script);
            assert!(before.region.is_none() || li.region == before.region);
            assert!(!li.language.is_empty() && li.script.is_some() && li.region.is_some(), "all three present (with c07_full_is_fixpoint: idempotent)");
        } else {
            assert!(li == before, "false leaves the identifier unchanged");
        }
        core::mem::forget(li);
        core::mem::forget(before);
    }
    }
}
