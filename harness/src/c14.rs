//! C14 — character_direction agrees with the CLDR layout data.
use crate::gen::layout::*;
use crate::k;
use crate::sym;
use unic_langid_impl::subtags::{Language, Region, Script};
use unic_langid_impl::{CharacterDirection, LanguageIdentifier};

fn dir_code(d: CharacterDirection) -> u8 {
    match d {
        CharacterDirection::LTR => 0,
        CharacterDirection::RTL => 1,
        CharacterDirection::TTB => 2,
    }
}
fn lang_int(l: Language) -> u64 {
    let o: Option<u64> = l.into();
    o.unwrap_or(0)
}
fn row_langid(i: usize) -> LanguageIdentifier {
    let l = if REF_LAYOUT_L[i] == 0 { Language::default() } else { unsafe { Language::from_raw_unchecked(REF_LAYOUT_L[i]) } };
    let s = if REF_LAYOUT_S[i] == 0 { None } else { Some(unsafe { Script::from_raw_unchecked(REF_LAYOUT_S[i]) }) };
    let r = if REF_LAYOUT_R[i] == 0 { None } else { Some(unsafe { Region::from_raw_unchecked(REF_LAYOUT_R[i]) }) };
    LanguageIdentifier::from_raw_parts_unchecked(l, s, r, None)
}
/// a script-less row of a language CLDR lists as RTL: the only rows whose answer needs the likely script
fn needs_likely(i: usize) -> bool {
    REF_LAYOUT_S[i] == 0 && REF_LANGS_RTL.contains(&REF_LAYOUT_L[i])
}
fn script_dir(s: u32) -> Option<u8> {
    if REF_SCRIPTS_LTR.contains(&s) {
        Some(0)
    } else if REF_SCRIPTS_RTL.contains(&s) {
        Some(1)
    } else if REF_SCRIPTS_TTB.contains(&s) {
        Some(2)
    } else {
        None
    }
}

proofs! {

// every CLDR locale directory whose answer does not need the likely script (symbolic row index)
[] fn c14_rows_direct() {
    let i = k::usize();
    k::assume(i < REF_LAYOUT_L.len());
    k::assume(!needs_likely(i));
    let li = row_langid(i);
    cover!(REF_LAYOUT_D[i] == 1);
    cover!(REF_LAYOUT_D[i] == 2);
    assert!(dir_code(li.character_direction()) == REF_LAYOUT_D[i], "character_direction == CLDR characterOrder");
}

// the rows that do: with likely-subtags support they must agree with CLDR; without it they may
// differ only for languages CLDR lists with more than one direction
[] fn c14_rows_likely() {
    let i = k::usize();
    k::assume(i < REF_LAYOUT_L.len());
    k::assume(needs_likely(i));
    let li = row_langid(i);
    let got = dir_code(li.character_direction());
    cover!(REF_LAYOUT_D[i] == 0);
    cover!(REF_LAYOUT_D[i] == 1);
    if cfg!(feature = "likelysubtags") {
        assert!(got == REF_LAYOUT_D[i], "character_direction == CLDR characterOrder (likely script consulted)");
    } else {
        assert!(got == REF_LAYOUT_D[i] || REF_LANGS_MULTI_DIR.contains(&REF_LAYOUT_L[i]), "without likely subtags only multi-direction languages may differ");
    }
}

// arbitrary identifiers: a listed script decides alone; unlisted/absent script + language never RTL => LTR; variants never matter
[] fn c14_script_decides() {
    let (li, m) = sym::any_langid(1);
    let got = dir_code(li.character_direction());
    let s: u32 = li.script.map(|s| s.into()).unwrap_or(0);
    let l = lang_int(li.language);
    cover!(script_dir(s) == Some(1));
    cover!(script_dir(s).is_none() && s != 0);
    match script_dir(s) {
        Some(d) => assert!(got == d, "a script CLDR lists decides the direction on its own"),
        None => {
            if !REF_LANGS_RTL.contains(&l) {
                assert!(got == 0, "unlisted script and a language CLDR never lists as RTL => LTR");
            }
        }
    }
    // the same identifier without its variants (only inputs that do not reach the likely-subtags tables here)
    if script_dir(s).is_some() || !REF_LANGS_RTL.contains(&l) {
        let bare = LanguageIdentifier::from_raw_parts_unchecked(li.language, li.script, li.region, None);
        assert!(dir_code(bare.character_direction()) == got, "variants never matter");
    }
    core::mem::forget(li);
}

}
