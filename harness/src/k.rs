//! Thin layer over `kani::any` so the same harness body can be (a) decided by
//! CBMC under `cfg(kani)` and (b) replayed natively on the concrete values of a
//! counterexample (`src/bin/replay.rs`), against the real std (no stubs), in
//! dev and release profile.

#[cfg(not(kani))]
pub mod native {
    use std::cell::RefCell;
    thread_local! {
        pub static VALS: RefCell<std::collections::VecDeque<Vec<u8>>> = RefCell::new(Default::default());
    }
    pub fn load(vals: Vec<Vec<u8>>) {
        VALS.with(|v| *v.borrow_mut() = vals.into());
    }
    /// The next recorded `kani::any()` value.  CBMC's trace omits an input the failure does not depend
    /// on (seen: the unused 9th byte of a 2-byte subtag), which shows up here as a value of the wrong
    /// width; such an input is taken as zero and the recorded value is left for the next draw.  This
    /// cannot manufacture a violation: one is reported only if this concrete native run of the real
    /// code panics, whatever the inputs were, and the inputs are printed.
    pub fn next(n: usize) -> Vec<u8> {
        let front_len = VALS.with(|v| v.borrow().front().map(|x| x.len()));
        match front_len {
            Some(l) if l == n => VALS.with(|v| v.borrow_mut().pop_front()).unwrap(),
            Some(l) => {
                eprintln!("REPLAY-NOTE wanted {} bytes, trace has {}: input omitted from the trace, taken as zero", n, l);
                vec![0; n]
            }
            None => {
                eprintln!("REPLAY-NOTE trace exhausted: input taken as zero");
                vec![0; n]
            }
        }
    }
}

#[cfg(kani)]
pub fn u8() -> u8 {
    kani::any()
}
#[cfg(not(kani))]
pub fn u8() -> u8 {
    native::next(1)[0]
}

#[cfg(kani)]
pub fn bool() -> bool {
    kani::any()
}
#[cfg(not(kani))]
pub fn bool() -> bool {
    native::next(1)[0] != 0
}

#[cfg(kani)]
pub fn usize() -> usize {
    kani::any()
}
#[cfg(not(kani))]
pub fn usize() -> usize {
    let v = native::next(8);
    let mut a = [0u8; 8];
    a.copy_from_slice(&v);
    usize::from_le_bytes(a)
}

#[cfg(kani)]
pub fn u32() -> u32 {
    kani::any()
}
#[cfg(not(kani))]
pub fn u32() -> u32 {
    let v = native::next(4);
    let mut a = [0u8; 4];
    a.copy_from_slice(&v);
    u32::from_le_bytes(a)
}

#[cfg(kani)]
pub fn u64() -> u64 {
    kani::any()
}
#[cfg(not(kani))]
pub fn u64() -> u64 {
    let v = native::next(8);
    let mut a = [0u8; 8];
    a.copy_from_slice(&v);
    u64::from_le_bytes(a)
}

#[cfg(kani)]
pub fn u128() -> u128 {
    kani::any()
}
#[cfg(not(kani))]
pub fn u128() -> u128 {
    let v = native::next(16);
    let mut a = [0u8; 16];
    a.copy_from_slice(&v);
    u128::from_le_bytes(a)
}

/// N unconstrained bytes, drawn 16 at a time as one `u128`.  (Drawn byte by byte, CBMC's
/// counterexample trace leaves out the bytes the failure does not depend on - e.g. the unused tail of a
/// 3-byte subtag - and the native replay can no longer tell which draw a recorded value belongs to; a
/// 16-byte value is either in the trace whole or missing whole, and a missing one is recognisable by
/// its width.)
pub fn bytes<const N: usize>() -> [u8; N] {
    let mut a = [0u8; N];
    let mut done = 0;
    while done < N {
        let w = u128().to_le_bytes();
        let mut j = 0;
        while j < 16 {
            if done + j < N {
                a[done + j] = w[j];
            }
            j += 1;
        }
        done += 16;
    }
    a
}

#[cfg(kani)]
pub fn assume(c: bool) {
    kani::assume(c)
}
#[cfg(not(kani))]
pub fn assume(c: bool) {
    if !c {
        eprintln!("REPLAY-MISMATCH assumption false");
        std::process::exit(4)
    }
}

/// vacuity witness: must be SATISFIED in every run (checked by the runner)
#[macro_export]
macro_rules! cover {
    ($($t:tt)*) => {
        #[cfg(kani)]
        kani::cover!($($t)*);
    };
}

/// Declares proof harnesses and the table the native replayer dispatches on.
///
///     proofs! {
///         [] fn plain() { .. }
///         [push, sortv, boxed] fn with_std_models() { .. }
///     }
///
/// The bracketed tags select the std models of `stubs.rs` (DESIGN 2.3) for that harness.
#[macro_export]
macro_rules! proofs {
    ($( [$($tag:ident),*] fn $name:ident() $body:block )*) => {
        $( $crate::harness_item!{ @acc [] [$($tag,)*] fn $name() $body } )*
        pub const LIST: &[(&str, fn())] = &[ $( (stringify!($name), $name as fn()) ),* ];
    };
}

#[macro_export]
macro_rules! harness_item {
    (@acc [$($a:tt)*] [] fn $name:ident() $body:block) => {
        #[cfg_attr(kani, kani::proof)]
        $($a)*
        pub fn $name() $body
    };
    (@acc [$($a:tt)*] [push, $($r:ident,)*] fn $name:ident() $body:block) => {
        $crate::harness_item!{ @acc [$($a)* #[cfg_attr(kani, kani::stub(std::vec::Vec::push, crate::stubs::push))]] [$($r,)*] fn $name() $body }
    };
    (@acc [$($a:tt)*] [sortv, $($r:ident,)*] fn $name:ident() $body:block) => {
        $crate::harness_item!{ @acc [$($a)* #[cfg_attr(kani, kani::stub(<[unic_langid_impl::subtags::Variant]>::sort_unstable, crate::stubs::sort_unstable))]] [$($r,)*] fn $name() $body }
    };
    (@acc [$($a:tt)*] [sortt, $($r:ident,)*] fn $name:ident() $body:block) => {
        $crate::harness_item!{ @acc [$($a)* #[cfg_attr(kani, kani::stub(<[tinystr::TinyAsciiStr<8>]>::sort_unstable, crate::stubs::sort_unstable))]] [$($r,)*] fn $name() $body }
    };
    (@acc [$($a:tt)*] [boxed, $($r:ident,)*] fn $name:ident() $body:block) => {
        $crate::harness_item!{ @acc [$($a)* #[cfg_attr(kani, kani::stub(std::vec::Vec::into_boxed_slice, crate::stubs::into_boxed_slice))]] [$($r,)*] fn $name() $body }
    };
    (@acc [$($a:tt)*] [insrem, $($r:ident,)*] fn $name:ident() $body:block) => {
        $crate::harness_item!{ @acc [$($a)* #[cfg_attr(kani, kani::stub(std::vec::Vec::insert, crate::stubs::insert))] #[cfg_attr(kani, kani::stub(std::vec::Vec::remove, crate::stubs::remove))]] [$($r,)*] fn $name() $body }
    };
    (@acc [$($a:tt)*] [tovec, $($r:ident,)*] fn $name:ident() $body:block) => {
        $crate::harness_item!{ @acc [$($a)* #[cfg_attr(kani, kani::stub(<[unic_langid_impl::subtags::Variant]>::to_vec, crate::stubs::to_vec))]] [$($r,)*] fn $name() $body }
    };
    (@acc [$($a:tt)*] [string, $($r:ident,)*] fn $name:ident() $body:block) => {
        $crate::harness_item!{ @acc [$($a)* #[cfg_attr(kani, kani::stub(std::string::String::push_str, crate::stubs::push_str))] #[cfg_attr(kani, kani::stub(std::string::String::push, crate::stubs::push_char))]] [$($r,)*] fn $name() $body }
    };
    (@acc [$($a:tt)*] [extcut, $($r:ident,)*] fn $name:ident() $body:block) => {
        $crate::harness_item!{ @acc [$($a)* #[cfg_attr(kani, kani::stub(unic_locale_impl::extensions::ExtensionsMap::try_from_iter, crate::stubs::ext_cut))]] [$($r,)*] fn $name() $body }
    };
    (@acc [$($a:tt)*] [nofmt, $($r:ident,)*] fn $name:ident() $body:block) => {
        $crate::harness_item!{ @acc [$($a)* #[cfg_attr(kani, kani::stub(alloc::fmt::format, crate::stubs::format))]] [$($r,)*] fn $name() $body }
    };
}
