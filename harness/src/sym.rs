//! Symbolic input builders.  `Tok` is one subtag: 9 bytes of storage, `n <= 9`
//! of them significant, every byte unconstrained (no ASCII assumption).

use crate::k;
use crate::spec::TMAX;

/// storage is padded to 16 bytes so that `Tok` has no padding bytes: CBMC 6.11 mis-reads
/// `toks[i].b[j]` for a symbolic `i` when the element type has trailing padding (found when a
/// solver counterexample of the reference model did not replay; see DESIGN 2.6)
pub const TSTORE: usize = 16;
#[derive(Clone, Copy)]
#[repr(C)]
pub struct Tok {
    pub b: [u8; TSTORE],
    pub n: usize,
}

impl Tok {
    pub fn bytes(&self) -> &[u8] {
        &self.b[..self.n]
    }
    pub const fn lit(s: &[u8]) -> Tok {
        let mut b = [0u8; TSTORE];
        let mut i = 0;
        while i < s.len() {
            b[i] = s[i];
            i += 1;
        }
        Tok { b, n: s.len() }
    }
}

fn store(a: [u8; TMAX]) -> [u8; TSTORE] {
    let mut b = [0u8; TSTORE];
    let mut i = 0;
    while i < TMAX {
        b[i] = a[i];
        i += 1;
    }
    b
}

/// any subtag of 0..=9 arbitrary bytes
pub fn tok9() -> Tok {
    let b = store(k::bytes());
    let n = k::usize();
    k::assume(n <= TMAX);
    Tok { b, n }
}

/// any subtag of exactly `n` arbitrary bytes (length-profiled position, DESIGN 2.5)
pub fn tok_len(n: usize) -> Tok {
    let b = store(k::bytes());
    Tok { b, n }
}

/// any subtag whose length lies in lo..=hi
pub fn tok_range(lo: usize, hi: usize) -> Tok {
    let b = store(k::bytes());
    let n = k::usize();
    k::assume(n >= lo && n <= hi);
    Tok { b, n }
}

/// Shows the inputs of a replayed counterexample; compiled out under Kani.
#[cfg(not(kani))]
pub fn note(label: &str, t: &Tok) {
    eprintln!("INPUT {}={:?} {:?}", label, String::from_utf8_lossy(t.bytes()), t.bytes());
}
#[cfg(kani)]
pub fn note(_label: &str, _t: &Tok) {}

#[cfg(not(kani))]
pub fn note_val<T: core::fmt::Debug>(label: &str, v: &T) {
    eprintln!("INPUT {}={:?}", label, v);
}
#[cfg(kani)]
pub fn note_val<T>(_label: &str, _v: &T) {}

// ---------------------------------------------------------------------------
// symbolic *values* of the real types, each paired with its reference-model text.
// A value is obtained by running the real checked constructor on a fully symbolic
// subtag and keeping the Ok outcomes, so "any valid subtag" is exactly the set the
// library itself can produce (C15 decides that this set is the UTS #35 production).
// ---------------------------------------------------------------------------
use crate::spec::{self, LangIdModel, Txt};
use unic_langid_impl::subtags::{Language, Region, Script, Variant};
use unic_langid_impl::LanguageIdentifier;

pub fn any_language() -> (Language, Txt) {
    let t = tok9();
    note("language", &t);
    match Language::from_bytes(t.bytes()) {
        Ok(l) => (l, spec::info(&t).lower()),
        Err(_) => {
            k::assume(false);
            unreachable!()
        }
    }
}
pub fn any_script() -> (Script, Txt) {
    let t = tok_len(4);
    note("script", &t);
    match Script::from_bytes(t.bytes()) {
        Ok(l) => (l, spec::info(&t).title()),
        Err(_) => {
            k::assume(false);
            unreachable!()
        }
    }
}
pub fn any_region() -> (Region, Txt) {
    let t = tok_range(2, 3);
    note("region", &t);
    match Region::from_bytes(t.bytes()) {
        Ok(l) => (l, spec::info(&t).upper()),
        Err(_) => {
            k::assume(false);
            unreachable!()
        }
    }
}
pub fn any_variant() -> (Variant, Txt) {
    let t = tok_range(4, 8);
    note("variant", &t);
    match Variant::from_bytes(t.bytes()) {
        Ok(l) => (l, spec::info(&t).lower()),
        Err(_) => {
            k::assume(false);
            unreachable!()
        }
    }
}
pub fn opt_script() -> (Option<Script>, Option<Txt>) {
    if k::bool() {
        let (s, t) = any_script();
        (Some(s), Some(t))
    } else {
        (None, None)
    }
}
pub fn opt_region() -> (Option<Region>, Option<Txt>) {
    if k::bool() {
        let (s, t) = any_region();
        (Some(s), Some(t))
    } else {
        (None, None)
    }
}

/// any language identifier with 0..=maxv (<= 2) variants in canonical representation
/// (sorted, unique, `None` when empty), built through the safe `const fn`
/// `from_raw_parts_unchecked`, whose documented precondition is exactly that representation
pub fn any_langid(maxv: usize) -> (LanguageIdentifier, LangIdModel) {
    let (l, lt) = any_language();
    let (s, st) = opt_script();
    let (r, rt) = opt_region();
    let mut m = LangIdModel { lang: lt, lang_und: spec::txt_eq(&lt, &spec::UND), script: st, region: rt, variants: [spec::NOTXT; spec::VMAX], nvariants: 0 };
    let nv = k::u8();
    k::assume((nv as usize) <= maxv && nv <= 2);
    // (the `maxv` disjuncts let CBMC prune the branches a smaller bound excludes)
    let vs: Option<Box<[Variant]>> = if nv == 0 || maxv == 0 {
        None
    } else if nv == 1 || maxv < 2 {
        let (v, vt) = any_variant();
        m.variants[0] = vt;
        m.nvariants = 1;
        Some(Box::new([v]))
    } else {
        let (v1, t1) = any_variant();
        let (v2, t2) = any_variant();
        k::assume(spec::txt_cmp(&t1, &t2) < 0);
        m.variants[0] = t1;
        m.variants[1] = t2;
        m.nvariants = 2;
        Some(Box::new([v1, v2]))
    };
    (LanguageIdentifier::from_raw_parts_unchecked(l, s, r, vs), m)
}

/// as `any_langid`, with the shape (script / region present, number of variants) fixed by the caller
pub fn langid_shape(has_s: bool, has_r: bool, nv: usize) -> (LanguageIdentifier, LangIdModel) {
    let (l, lt) = any_language();
    let (s, st) = if has_s {
        let (s, t) = any_script();
        (Some(s), Some(t))
    } else {
        (None, None)
    };
    let (r, rt) = if has_r {
        let (r, t) = any_region();
        (Some(r), Some(t))
    } else {
        (None, None)
    };
    let mut m = LangIdModel { lang: lt, lang_und: spec::txt_eq(&lt, &spec::UND), script: st, region: rt, variants: [spec::NOTXT; spec::VMAX], nvariants: 0 };
    let vs: Option<Box<[Variant]>> = match nv {
        0 => None,
        1 => {
            let (v, vt) = any_variant();
            m.variants[0] = vt;
            m.nvariants = 1;
            Some(Box::new([v]))
        }
        _ => {
            let (v1, t1) = any_variant();
            let (v2, t2) = any_variant();
            k::assume(spec::txt_cmp(&t1, &t2) < 0);
            m.variants[0] = t1;
            m.variants[1] = t2;
            m.nvariants = 2;
            Some(Box::new([v1, v2]))
        }
    };
    (LanguageIdentifier::from_raw_parts_unchecked(l, s, r, vs), m)
}
