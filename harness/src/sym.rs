//! Symbolic input builders.  `Tok` is one subtag: 9 bytes of storage, `n <= 9`
//! of them significant, every byte unconstrained (no ASCII assumption).

use crate::k;
use crate::spec::TMAX;

/// storage is padded to 16 bytes so that `Tok` has no padding bytes: CBMC 6.11 mis-reads
/// `toks[i].b[j]` for a symbolic `i` when the element type has trailing padding (found when a
/// solver counterexample of the reference model did not replay; see DESIGN 2.6)
pub const TSTORE: usize = 16;
#[derive(Clone, Copy)]
#[repr(C)]
pub struct Tok {
    pub b: [u8; TSTORE],
    pub n: usize,
}

impl Tok {
    pub fn bytes(&self) -> &[u8] {
        &self.b[..self.n]
    }
    pub const fn lit(s: &[u8]) -> Tok {
        let mut b = [0u8; TSTORE];
        let mut i = 0;
        while i < s.len() {
            b[i] = s[i];
            i += 1;
        }
        Tok { b, n: s.len() }
    }
}

fn store(a: [u8; TMAX]) -> [u8; TSTORE] {
    let mut b = [0u8; TSTORE];
    let mut i = 0;
    while i < TMAX {
        b[i] = a[i];
        i += 1;
    }
    b
}

/// any subtag of 0..=9 arbitrary bytes
pub fn tok9() -> Tok {
    let b = store(k::bytes());
    let n = k::usize();
    k::assume(n <= TMAX);
    Tok { b, n }
}

/// any subtag of exactly `n` arbitrary bytes (length-profiled position, DESIGN 2.5)
pub fn tok_len(n: usize) -> Tok {
    let b = store(k::bytes());
    Tok { b, n }
}

/// any subtag whose length lies in lo..=hi
pub fn tok_range(lo: usize, hi: usize) -> Tok {
    let b = store(k::bytes());
    let n = k::usize();
    k::assume(n >= lo && n <= hi);
    Tok { b, n }
}

/// Shows the inputs of a replayed counterexample; compiled out under Kani.
#[cfg(not(kani))]
pub fn note(label: &str, t: &Tok) {
    eprintln!("INPUT {}={:?} {:?}", label, String::from_utf8_lossy(t.bytes()), t.bytes());
}
#[cfg(kani)]
pub fn note(_label: &str, _t: &Tok) {}

#[cfg(not(kani))]
pub fn note_val<T: core::fmt::Debug>(label: &str, v: &T) {
    eprintln!("INPUT {}={:?}", label, v);
}
#[cfg(kani)]
pub fn note_val<T>(_label: &str, _v: &T) {}
