//! Shared pieces of the likely-subtags harnesses (C06, C07, C08, C14, C18): views of the
//! reference tables generated from the CLDR JSON, the reference lookup, subtag <-> integer.
#![cfg(feature = "likelysubtags")]
use crate::gen::likely::*;
use crate::k;
use unic_langid_impl::subtags::{Language, Region, Script};

pub type Triple = (Language, Option<Script>, Option<Region>);
/// reference-side triple: integer forms, 0 = absent (language 0 = und)
#[derive(Clone, Copy, PartialEq, Eq)]
pub struct RT {
    pub l: u64,
    pub s: u32,
    pub r: u32,
}

pub fn lang_int(l: Language) -> u64 {
    let o: Option<u64> = l.into();
    o.unwrap_or(0)
}
pub fn rt_of(t: &Triple) -> RT {
    RT { l: lang_int(t.0), s: t.1.map(|s| s.into()).unwrap_or(0), r: t.2.map(|r| r.into()).unwrap_or(0) }
}

/// lower-bound binary search over a sorted reference key column, `steps` halvings (checked bound)
pub fn find1<T: Copy + Ord>(keys: &[T], key: T) -> Option<usize> {
    let mut lo = 0usize;
    let mut hi = keys.len();
    while lo < hi {
        let mid = lo + (hi - lo) / 2;
        if keys[mid] < key {
            lo = mid + 1;
        } else {
            hi = mid;
        }
    }
    if lo < keys.len() && keys[lo] == key {
        Some(lo)
    } else {
        None
    }
}
pub fn find2<A: Copy + Ord, B: Copy + Ord>(k0: &[A], k1: &[B], a: A, b: B) -> Option<usize> {
    let mut lo = 0usize;
    let mut hi = k0.len();
    while lo < hi {
        let mid = lo + (hi - lo) / 2;
        if (k0[mid], k1[mid]) < (a, b) {
            lo = mid + 1;
        } else {
            hi = mid;
        }
    }
    if lo < k0.len() && k0[lo] == a && k1[lo] == b {
        Some(lo)
    } else {
        None
    }
}

/// what a UTS #35 "add likely subtags" lookup yields for this implementation's documented
/// cascade.  Result: Found(triple) / NotFound / Either (the library may or may not apply a
/// further UTS #35 fallback: bare `und`, und_script for an unknown language, und_region after an
/// unknown script).
#[derive(Clone, Copy, PartialEq, Eq)]
pub enum Want {
    Found(RT),
    NotFound,
    /// no entry matches along the library's documented cascade, but a UTS #35 fallback might:
    /// accepted answers are 'unchanged' or a full triple that keeps every given subtag
    Either,
}

/// the weakest thing every `Some` answer must satisfy: given subtags kept, all three present
pub fn keeps_given(q: &RT, v: &RT) -> bool {
    (q.l == 0 || v.l == q.l) && (q.s == 0 || v.s == q.s) && (q.r == 0 || v.r == q.r) && v.l != 0 && v.s != 0 && v.r != 0
}

/// `big`: whether the query may consult the 7143-row language table (callers split by case)
pub fn reference_maximize(q: RT) -> Want {
    if q.l != 0 && q.s != 0 && q.r != 0 {
        return Want::NotFound; // nothing to add: reported as unchanged
    }
    if q.l != 0 {
        if q.r != 0 {
            if let Some(i) = find2(&REF_LANG_REGION_K0, &REF_LANG_REGION_K1, q.l, q.r) {
                return Want::Found(RT { l: REF_LANG_REGION_VL[i], s: REF_LANG_REGION_VS[i], r: REF_LANG_REGION_VR[i] });
            }
        }
        if q.s != 0 {
            if let Some(i) = find2(&REF_LANG_SCRIPT_K0, &REF_LANG_SCRIPT_K1, q.l, q.s) {
                return Want::Found(RT { l: REF_LANG_SCRIPT_VL[i], s: REF_LANG_SCRIPT_VS[i], r: REF_LANG_SCRIPT_VR[i] });
            }
        }
        if let Some(i) = find1(&REF_LANG_ONLY_K0, q.l) {
            return Want::Found(RT {
                l: REF_LANG_ONLY_VL[i],
                s: if q.s != 0 { q.s } else { REF_LANG_ONLY_VS[i] },
                r: if q.r != 0 { q.r } else { REF_LANG_ONLY_VR[i] },
            });
        }
        // unknown language: UTS #35 would go on to und_script / und_region
        return if q.s != 0 || q.r != 0 { Want::Either } else { Want::NotFound };
    }
    if q.s != 0 {
        if q.r != 0 {
            if let Some(i) = find2(&REF_SCRIPT_REGION_K0, &REF_SCRIPT_REGION_K1, q.s, q.r) {
                return Want::Found(RT { l: REF_SCRIPT_REGION_VL[i], s: REF_SCRIPT_REGION_VS[i], r: REF_SCRIPT_REGION_VR[i] });
            }
        }
        if let Some(i) = find1(&REF_SCRIPT_ONLY_K0, q.s) {
            return Want::Found(RT { l: REF_SCRIPT_ONLY_VL[i], s: REF_SCRIPT_ONLY_VS[i], r: if q.r != 0 { q.r } else { REF_SCRIPT_ONLY_VR[i] } });
        }
        // unknown script: UTS #35 would go on to und_region / und
        return Want::Either;
    }
    if q.r != 0 {
        if let Some(i) = find1(&REF_REGION_ONLY_K0, q.r) {
            return Want::Found(RT { l: REF_REGION_ONLY_VL[i], s: REF_REGION_ONLY_VS[i], r: REF_REGION_ONLY_VR[i] });
        }
        return Want::Either; // bare und
    }
    Want::Either // bare und
}
