//! C04 — serialisation always emits the canonical well-formed form.
//! C05 — string round trip.
use crate::h;
use crate::k;
use crate::spec::{self, LangIdErr};
use crate::sym::{self, Tok};
use unic_langid_impl::subtags::{Language, Region, Script, Variant};
use unic_langid_impl::LanguageIdentifier;

pub const OUT: usize = 48;

/// `got` equals the first `n` bytes of `want`
pub fn bytes_are(got: &[u8], want: &[u8; OUT], n: usize) -> bool {
    if got.len() != n || n > OUT {
        return false;
    }
    let mut i = 0;
    while i < OUT {
        if i < n && got[i] != want[i] {
            return false;
        }
        i += 1;
    }
    true
}

fn langid_display(maxv: usize) {
    let (x, m) = sym::any_langid(maxv);
    let s = x.to_string(); // real Display + core::fmt
    let mut want = [0u8; OUT];
    let mut n = 0;
    spec::write_langid(&mut want, &mut n, &m);
    cover!(m.nvariants == maxv && m.script.is_some() && m.region.is_some());
    assert!(bytes_are(s.as_bytes(), &want, n), "to_string() == reference canonical serialisation, byte for byte");
    // well-formedness of the printed text: it equals the serialisation of the model (above), and the
    // model's subtags are checked here against the strict UTS #35 recognisers in canonical case and order
    // (cheaper than re-splitting a symbolic-length string, and the same statement)
    assert!(spec::model_is_canonical(&m), "every printed subtag is a well-formed subtag of its class in canonical case; variants strictly increasing");
    core::mem::forget(x);
    core::mem::forget(s);
}

/// canonicalize at token level: parse K symbolic subtags with the real parser, print, compare with
/// the reference canonicalisation of the same tokens; never longer than the input
fn canonicalize_tokens<const K: usize>() {
    let toks: [Tok; K] = h::toks9();
    h::note_toks(&toks);
    let r = h::parse_tokens(&toks, false);
    let (want, _) = spec::parse_langid(&toks, K, false);
    cover!(r.is_ok());
    if let (Ok(li), Ok(m)) = (&r, &want) {
        let s = li.to_string();
        let mut buf = [0u8; OUT];
        let mut n = 0;
        spec::write_langid(&mut buf, &mut n, m);
        assert!(bytes_are(s.as_bytes(), &buf, n), "canonicalize(s) is the canonical string of the value parsed from s");
        let mut input_len = K - 1;
        let mut i = 0;
        while i < K {
            input_len += toks[i].n;
            i += 1;
        }
        assert!(s.len() <= input_len, "canonicalize never lengthens its input");
        core::mem::forget(s);
    }
    core::mem::forget(r);
}

proofs! {

[string] fn c04_langid_display_v0() { langid_display(0) }
[string] fn c04_langid_display_v2() { langid_display(2) }
[string, push, sortv, boxed] fn c04_canonicalize_tokens_2() { canonicalize_tokens::<2>() }
[string, push, sortv, boxed] fn c04_canonicalize_tokens_3() { canonicalize_tokens::<3>() }

// subtag Display == as_str == reference text
[string] fn c04_subtag_display() {
    let (l, lt) = sym::any_language();
    let (s, st) = sym::any_script();
    let (r, rt) = sym::any_region();
    let (v, vt) = sym::any_variant();
    cover!(l.is_empty());
    assert!(spec::same_text(l.to_string().as_bytes(), &lt) && spec::same_text(l.as_str().as_bytes(), &lt));
    assert!(spec::same_text(s.to_string().as_bytes(), &st) && spec::same_text(s.as_str().as_bytes(), &st));
    assert!(spec::same_text(r.to_string().as_bytes(), &rt) && spec::same_text(r.as_str().as_bytes(), &rt));
    assert!(spec::same_text(v.to_string().as_bytes(), &vt) && spec::same_text(v.as_str().as_bytes(), &vt));
}

}

pub mod ext {
    use super::*;
    use crate::xspec;
    use unic_locale_impl::extensions::{ExtensionsMap, PrivateExtensionList, TransformExtensionList, UnicodeExtensionList};
    use unic_locale_impl::Locale;

    /// Display of a -u- list parsed from a length-profiled frame == reference serialisation of the model
    fn u_display<const K: usize>(lens: [usize; K]) {
        let toks = h::toks_len(lens);
        h::note_toks(&toks);
        let inf = spec::infos(&toks);
        let (want, _end, over) = xspec::parse_u(&inf, 0);
        k::assume(!over);
        let (got, _left) = h::parse_ulist_tokens(&toks);
        cover!(got.is_ok());
        if let (Ok(u), Ok(m)) = (&got, &want) {
            let s = u.to_string();
            let mut buf = [0u8; OUT];
            let mut n = 0;
            xspec::write_u(&mut buf, &mut n, m);
            assert!(bytes_are(s.as_bytes(), &buf, n), "-u- Display: '-u', attributes sorted, then keywords sorted by key with their types; nothing when empty");
            core::mem::forget(s);
        }
        core::mem::forget(got);
    }
    fn t_display<const K: usize>(lens: [usize; K]) {
        let toks = h::toks_len(lens);
        h::note_toks(&toks);
        let inf = spec::infos(&toks);
        let (want, _end, over) = xspec::parse_t(&inf, 0);
        k::assume(!over);
        let (got, _left) = h::parse_tlist_tokens(&toks);
        cover!(got.is_ok());
        if let (Ok(t), Ok(m)) = (&got, &want) {
            let s = t.to_string();
            let mut buf = [0u8; OUT];
            let mut n = 0;
            xspec::write_t(&mut buf, &mut n, m);
            assert!(bytes_are(s.as_bytes(), &buf, n), "-t- Display: '-t', tlang, then fields sorted by key with their values; nothing when empty");
            core::mem::forget(s);
        }
        core::mem::forget(got);
    }
    fn x_display<const K: usize>() {
        let toks: [Tok; K] = h::toks9();
        h::note_toks(&toks);
        let inf = spec::infos(&toks);
        let want = xspec::parse_x(&inf, 0);
        let got = h::parse_plist_tokens(&toks);
        cover!(got.is_ok());
        if let (Ok(p), Ok(m)) = (&got, &want) {
            let s = p.to_string();
            let mut buf = [0u8; OUT];
            let mut n = 0;
            xspec::write_p(&mut buf, &mut n, m);
            assert!(bytes_are(s.as_bytes(), &buf, n), "-x- Display: '-x' and the tags in sorted order; nothing when empty");
            core::mem::forget(s);
        }
        core::mem::forget(got);
    }

    /// a whole Locale: id (language-region), one -t- field or tlang, one -u- attribute, one private tag:
    /// extensions print in the order t, u, x after the id
    fn locale_display() {
        let (id, idm) = sym::langid_shape(false, true, 0);
        let ut = h::toks_len([3]);
        let tt = h::toks_len([2]);
        let pt = h::toks_len([2]);
        let (u, _) = h::parse_ulist_tokens(&ut);
        let (t, _) = h::parse_tlist_tokens(&tt);
        let p = h::parse_plist_tokens(&pt);
        let (um, _, _) = xspec::parse_u(&spec::infos(&ut), 0);
        let (tm, _, _) = xspec::parse_t(&spec::infos(&tt), 0);
        let pm = xspec::parse_x(&spec::infos(&pt), 0);
        if let (Ok(u), Ok(t), Ok(p), Ok(um), Ok(tm), Ok(pm)) = (u, t, p, um, tm, pm) {
            let loc = Locale { id, extensions: ExtensionsMap { unicode: u, transform: t, other: Default::default(), private: p } };
            let s = loc.to_string();
            let mut buf = [0u8; OUT];
            let mut n = 0;
            spec::write_langid(&mut buf, &mut n, &idm);
            xspec::write_t(&mut buf, &mut n, &tm);
            xspec::write_u(&mut buf, &mut n, &um);
            xspec::write_p(&mut buf, &mut n, &pm);
            cover!(n > 14);
            assert!(bytes_are(s.as_bytes(), &buf, n), "Locale Display: id, then extensions in the order t, u, x");
            core::mem::forget((loc, s));
        }
    }


    // ---- values built through the public mutators (in place, so the B-tree maps keep the concrete
    // shape CBMC needs: a value that comes back inside a `Result` from the parser is merged with the
    // error paths and its map root turns symbolic - measured: Display of a parsed list did not finish
    // symbolic execution in 10 min, the same list built by setters takes seconds) ----
    use crate::xspec::{KV, PModel, TModel, UModel};
    use crate::spec::{NOTXT, VMAX};

    /// 0..=2 attributes, then optionally one keyword (key = any 2 bytes, 0..=2 types = any bytes)
    fn u_built(with_kw: bool) {
        let mut u = UnicodeExtensionList::default();
        let mut m = UModel { attrs: [NOTXT; VMAX], nattrs: 0, kw: KV::new() };
        let mut i = 0;
        while i < 2 {
            let t = sym::tok9();
            sym::note("attr", &t);
            let inf = spec::info(&t);
            if u.set_attribute(t.bytes()).is_ok() {
                k::assume(inf.is_utype()); // exact acceptance is C10's subject
                spec::insert_sorted_unique(&mut m.attrs, &mut m.nattrs, inf.lower());
            }
            i += 1;
        }
        if with_kw {
            let key = sym::tok_len(2);
            let v0 = sym::tok9();
            let v1 = sym::tok9();
            let nv = k::u8() as usize;
            k::assume(nv <= 2);
            sym::note("key", &key);
            sym::note("v0", &v0);
            sym::note("v1", &v1);
            let (ki, i0, i1) = (spec::info(&key), spec::info(&v0), spec::info(&v1));
            let arr: [&[u8]; 2] = [v0.bytes(), v1.bytes()];
            if u.set_keyword(key.bytes(), &arr[..nv]).is_ok() {
                let vals = [(i0.is_utype(), i0.lower()), (i1.is_utype(), i1.lower())];
                k::assume(crate::c10::kv_set(&mut m.kw, ki.is_ukey(), ki.lower(), &vals, nv));
            }
            }
        cover!(!with_kw || (m.kw.nkeys == 1 && m.kw.nvals[0] == 2 && m.nattrs == 2));
        cover!(m.nattrs == 2);
        cover!(m.nattrs == 0 && m.kw.nkeys == 0);
        let s = u.to_string();
        let mut buf = [0u8; OUT];
        let mut n = 0;
        xspec::write_u(&mut buf, &mut n, &m);
        assert!(bytes_are(s.as_bytes(), &buf, n), "-u- Display: '-u', attributes sorted, then the keyword with its types; nothing when empty");
        core::mem::forget((s, u));
    }

    /// optional tlang (language[-region]) and optionally one field (key any 2 bytes, 0..=2 values)
    fn t_built() {
        let mut t = TransformExtensionList::default();
        let mut m = TModel { tlang: None, fields: KV::new() };
        if k::bool() {
            let (li, lm) = sym::langid_shape(false, true, 0);
            let _ = t.set_tlang(li);
            m.tlang = Some(lm);
        }
        if k::bool() {
            let key = sym::tok_len(2);
            let v0 = sym::tok9();
            let v1 = sym::tok9();
            let nv = k::u8() as usize;
            k::assume(nv <= 2);
            sym::note("key", &key);
            sym::note("v0", &v0);
            sym::note("v1", &v1);
            let (ki, i0, i1) = (spec::info(&key), spec::info(&v0), spec::info(&v1));
            let arr: [&[u8]; 2] = [v0.bytes(), v1.bytes()];
            if t.set_tfield(key.bytes(), &arr[..nv]).is_ok() {
                let vals = [(i0.is_utype(), i0.lower()), (i1.is_utype(), i1.lower())];
                k::assume(crate::c10::kv_set(&mut m.fields, ki.is_tkey(), ki.lower(), &vals, nv));
            }
        }
        cover!(m.tlang.is_some() && m.fields.nkeys == 1 && m.fields.nvals[0] == 2);
        cover!(m.tlang.is_none() && m.fields.nkeys == 0);
        let s = t.to_string();
        let mut buf = [0u8; OUT];
        let mut n = 0;
        xspec::write_t(&mut buf, &mut n, &m);
        assert!(bytes_are(s.as_bytes(), &buf, n), "-t- Display: '-t', tlang, then the field with its values; nothing when empty");
        core::mem::forget((s, t));
    }

    /// a whole Locale built in place: language-region id, one attribute, one tfield, one private tag
    fn locale_built() {
        let (id, idm) = sym::langid_shape(false, true, 0);
        let mut loc = Locale::from(id);
        let mut um = UModel { attrs: [NOTXT; VMAX], nattrs: 0, kw: KV::new() };
        let mut tm = TModel { tlang: None, fields: KV::new() };
        let mut pm = PModel { tags: [NOTXT; VMAX], ntags: 0 };
        let a = sym::tok9();
        let key = sym::tok_len(2);
        let v0 = sym::tok9();
        let tag = sym::tok9();
        sym::note("attr", &a);
        sym::note("tkey", &key);
        sym::note("tval", &v0);
        sym::note("tag", &tag);
        let (ai, ki, vi, gi) = (spec::info(&a), spec::info(&key), spec::info(&v0), spec::info(&tag));
        if loc.extensions.unicode.set_attribute(a.bytes()).is_ok() {
            k::assume(ai.is_utype());
            spec::insert_sorted_unique(&mut um.attrs, &mut um.nattrs, ai.lower());
        }
        let arr: [&[u8]; 1] = [v0.bytes()];
        if loc.extensions.transform.set_tfield(key.bytes(), &arr[..]).is_ok() {
            let vals = [(vi.is_utype(), vi.lower()), (false, NOTXT)];
            k::assume(crate::c10::kv_set(&mut tm.fields, ki.is_tkey(), ki.lower(), &vals, 1));
        }
        if loc.extensions.private.add_tag(tag.bytes()).is_ok() {
            k::assume(gi.is_private());
            xspec::insert_sorted_multi(&mut pm.tags, &mut pm.ntags, gi.lower());
        }
        cover!(um.nattrs == 1 && tm.fields.nkeys == 1 && pm.ntags == 1);
        let s = loc.to_string();
        let mut buf = [0u8; OUT];
        let mut n = 0;
        spec::write_langid(&mut buf, &mut n, &idm);
        xspec::write_t(&mut buf, &mut n, &tm);
        xspec::write_u(&mut buf, &mut n, &um);
        xspec::write_p(&mut buf, &mut n, &pm);
        assert!(bytes_are(s.as_bytes(), &buf, n), "Locale Display: id, then extensions in the order t, u, x; nothing for an empty extension");
        core::mem::forget((s, loc));
    }

    proofs! {
    [string, push, insrem, sortt] fn c04_u_built_attrs() { u_built(false) }
    [string, push, insrem, sortt] fn c04_u_built_kw() { u_built(true) }
    [string, push, sortt, sortv, boxed] fn c04_t_built() { t_built() }
    [string, push, insrem, sortt, sortv, boxed] fn c04_locale_built() { locale_built() }
    [string, push, sortt] fn c04_u_display_3_3() { u_display([3, 3]) }
    [string, push, sortt] fn c04_u_display_3_2_4() { u_display([3, 2, 4]) }
    [string, push, sortt] fn c04_u_display_2_3_2_3() { u_display([2, 3, 2, 3]) }
    [string, push, sortt, sortv, boxed] fn c04_t_display_2_3() { t_display([2, 3]) }
    [string, push, sortt, sortv, boxed] fn c04_t_display_2_2_2_3() { t_display([2, 2, 2, 3]) }
    [string, push, sortt] fn c04_x_display_2() { x_display::<2>() }
    [string, push, sortt, sortv, boxed] fn c04_locale_display() { locale_display() }
    }
}

pub mod c05 {
    use super::*;
    use std::str::FromStr;

    fn reparse_shape<const K: usize>(has_s: bool, has_r: bool, nv: usize) {
        let (x, _m) = sym::langid_shape(has_s, has_r, nv);
        let mut toks = [Tok::lit(b""); K];
        let mut n = 0;
        toks[n] = Tok::lit(x.language.as_str().as_bytes());
        n += 1;
        if let Some(s) = &x.script {
            toks[n] = Tok::lit(s.as_str().as_bytes());
            n += 1;
        }
        if let Some(r) = &x.region {
            toks[n] = Tok::lit(r.as_str().as_bytes());
            n += 1;
        }
        {
            let mut vs = x.variants();
            if nv >= 1 {
                toks[n] = Tok::lit(vs.next().unwrap().as_str().as_bytes());
                n += 1;
            }
            if nv >= 2 {
                toks[n] = Tok::lit(vs.next().unwrap().as_str().as_bytes());
                n += 1;
            }
        }
        assert!(n == K);
        let y = h::parse_tokens(&toks, false);
        cover!(y.is_ok());
        match &y {
            Ok(y) => assert!(*y == x, "re-parsing the serialised subtags yields an equal value"),
            Err(_) => assert!(false, "the serialiser's own output is rejected"),
        }
        core::mem::forget(y);
        core::mem::forget(x);
    }

    proofs! {

    // parse(x.to_string()) == x, literally executed, for each subtag type
    [string] fn c05_subtag_roundtrip() {
        let (l, _) = sym::any_language();
        let (s, _) = sym::any_script();
        let (r, _) = sym::any_region();
        let (v, _) = sym::any_variant();
        cover!(l.is_empty());
        assert!(Language::from_str(&l.to_string()) == Ok(l));
        assert!(Script::from_str(&s.to_string()) == Ok(s));
        assert!(Region::from_str(&r.to_string()) == Ok(r));
        assert!(Variant::from_str(&v.to_string()) == Ok(v));
    }

    // language identifiers of a fixed shape: the serialiser's own token sequence (as_str of each subtag,
    // in the order Display prints them) re-parsed by the real token-level entry gives back an equal value
    [push, sortv, boxed] fn c05_langid_reparse_lsrv() { reparse_shape::<4>(true, true, 1) }
    [push, sortv, boxed] fn c05_langid_reparse_lrvv() { reparse_shape::<4>(false, true, 2) }
    [push, sortv, boxed] fn c05_langid_reparse_ls() { reparse_shape::<2>(true, false, 0) }
    [push, sortv, boxed] fn c05_langid_reparse_lv() { reparse_shape::<2>(false, false, 1) }
    [push, sortv, boxed] fn c05_langid_reparse_lsrvv() { reparse_shape::<5>(true, true, 2) }

    // canonicalize is idempotent at token level: canon(tokens(canon(s))) == canon(s)
    [push, sortv, boxed] fn c05_canonicalize_idempotent_2() {
        let toks: [Tok; 2] = h::toks9();
        h::note_toks(&toks);
        let r = h::parse_tokens(&toks, false);
        cover!(r.is_ok());
        if let Ok(x) = &r {
            let mut t2 = [Tok::lit(b""); 2];
            t2[0] = Tok::lit(x.language.as_str().as_bytes());
            let second: Option<&str> = match (&x.script, &x.region) {
                (Some(s), _) => Some(s.as_str()),
                (None, Some(r)) => Some(r.as_str()),
                (None, None) => x.variants().next().map(|v| v.as_str()),
            };
            let r2 = match second {
                Some(s) => {
                    t2[1] = Tok::lit(s.as_bytes());
                    h::parse_tokens(&t2, false)
                }
                None => {
                    let t1 = [t2[0]];
                    h::parse_tokens(&t1, false)
                }
            };
            match &r2 {
                Ok(y) => assert!(*y == *x, "canonical form re-parses to the same value (idempotence)"),
                Err(_) => assert!(false, "canonical form is rejected"),
            }
            core::mem::forget(r2);
        }
        core::mem::forget(r);
    }

    }
}
