//! C04 — serialisation always emits the canonical well-formed form.
//! C05 — string round trip.
use crate::h;
use crate::k;
use crate::spec::{self, LangIdErr};
use crate::sym::{self, Tok};
use unic_langid_impl::subtags::{Language, Region, Script, Variant};
use unic_langid_impl::LanguageIdentifier;

pub const OUT: usize = 48;

/// `got` equals the first `n` bytes of `want`
pub fn bytes_are(got: &[u8], want: &[u8; OUT], n: usize) -> bool {
    if got.len() != n || n > OUT {
        return false;
    }
    let mut i = 0;
    while i < OUT {
        if i < n && got[i] != want[i] {
            return false;
        }
        i += 1;
    }
    true
}

fn langid_display(maxv: usize) {
    let (x, m) = sym::any_langid(maxv);
    let s = x.to_string(); // real Display + core::fmt
    let mut want = [0u8; OUT];
    let mut n = 0;
    spec::write_langid(&mut want, &mut n, &m);
    cover!(m.nvariants == maxv && m.script.is_some() && m.region.is_some());
    assert!(bytes_are(s.as_bytes(), &want, n), "to_string() == reference canonical serialisation, byte for byte");
    assert!(spec::is_canonical_langid(s.as_bytes()), "output is accepted by the strict canonical recogniser");
    core::mem::forget(x);
    core::mem::forget(s);
}

/// canonicalize at token level: parse K symbolic subtags with the real parser, print, compare with
/// the reference canonicalisation of the same tokens; never longer than the input
fn canonicalize_tokens<const K: usize>() {
    let toks: [Tok; K] = h::toks9();
    h::note_toks(&toks);
    let r = h::parse_tokens(&toks, false);
    let (want, _) = spec::parse_langid(&toks, K, false);
    cover!(r.is_ok());
    if let (Ok(li), Ok(m)) = (&r, &want) {
        let s = li.to_string();
        let mut buf = [0u8; OUT];
        let mut n = 0;
        spec::write_langid(&mut buf, &mut n, m);
        assert!(bytes_are(s.as_bytes(), &buf, n), "canonicalize(s) is the canonical string of the value parsed from s");
        let mut input_len = K - 1;
        let mut i = 0;
        while i < K {
            input_len += toks[i].n;
            i += 1;
        }
        assert!(s.len() <= input_len, "canonicalize never lengthens its input");
        core::mem::forget(s);
    }
    core::mem::forget(r);
}

proofs! {

[string] fn c04_langid_display_v0() { langid_display(0) }
[string] fn c04_langid_display_v2() { langid_display(2) }
[string, push, sortv, boxed] fn c04_canonicalize_tokens_2() { canonicalize_tokens::<2>() }
[string, push, sortv, boxed] fn c04_canonicalize_tokens_3() { canonicalize_tokens::<3>() }

// subtag Display == as_str == reference text
[string] fn c04_subtag_display() {
    let (l, lt) = sym::any_language();
    let (s, st) = sym::any_script();
    let (r, rt) = sym::any_region();
    let (v, vt) = sym::any_variant();
    cover!(l.is_empty());
    assert!(spec::same_text(l.to_string().as_bytes(), &lt) && spec::same_text(l.as_str().as_bytes(), &lt));
    assert!(spec::same_text(s.to_string().as_bytes(), &st) && spec::same_text(s.as_str().as_bytes(), &st));
    assert!(spec::same_text(r.to_string().as_bytes(), &rt) && spec::same_text(r.as_str().as_bytes(), &rt));
    assert!(spec::same_text(v.to_string().as_bytes(), &vt) && spec::same_text(v.as_str().as_bytes(), &vt));
}

}

pub mod c05 {
    use super::*;
    use std::str::FromStr;

    proofs! {

    // parse(x.to_string()) == x, literally executed, for each subtag type
    [string] fn c05_subtag_roundtrip() {
        let (l, _) = sym::any_language();
        let (s, _) = sym::any_script();
        let (r, _) = sym::any_region();
        let (v, _) = sym::any_variant();
        cover!(l.is_empty());
        assert!(Language::from_str(&l.to_string()) == Ok(l));
        assert!(Script::from_str(&s.to_string()) == Ok(s));
        assert!(Region::from_str(&r.to_string()) == Ok(r));
        assert!(Variant::from_str(&v.to_string()) == Ok(v));
    }

    // language identifiers: the serialiser's own token sequence (as_str of each subtag, the order
    // Display prints them in) re-parsed by the real token-level entry gives back an equal value
    [push, sortv, boxed] fn c05_langid_reparse_tokens() {
        let (x, m) = sym::any_langid(2);
        let mut toks = [Tok::lit(b""); 5];
        let mut n = 0;
        toks[n] = Tok::lit(x.language.as_str().as_bytes());
        n += 1;
        if let Some(s) = &x.script {
            toks[n] = Tok::lit(s.as_str().as_bytes());
            n += 1;
        }
        if let Some(r) = &x.region {
            toks[n] = Tok::lit(r.as_str().as_bytes());
            n += 1;
        }
        for v in x.variants() {
            toks[n] = Tok::lit(v.as_str().as_bytes());
            n += 1;
        }
        cover!(n == 5);
        let arr = h::slices(&toks);
        let mut it = arr[..n].iter().copied().peekable();
        let y = LanguageIdentifier::try_from_iter(&mut it, false);
        match &y {
            Ok(y) => assert!(*y == x, "re-parsing the serialised subtags yields an equal value"),
            Err(_) => assert!(false, "the serialiser's own output is rejected"),
        }
        core::mem::forget(y);
        core::mem::forget(x);
    }

    // canonicalize is idempotent at token level: canon(tokens(canon(s))) == canon(s)
    [push, sortv, boxed] fn c05_canonicalize_idempotent_2() {
        let toks: [Tok; 2] = h::toks9();
        h::note_toks(&toks);
        let r = h::parse_tokens(&toks, false);
        cover!(r.is_ok());
        if let Ok(x) = &r {
            let mut t2 = [Tok::lit(b""); 2];
            t2[0] = Tok::lit(x.language.as_str().as_bytes());
            let second: Option<&str> = match (&x.script, &x.region) {
                (Some(s), _) => Some(s.as_str()),
                (None, Some(r)) => Some(r.as_str()),
                (None, None) => x.variants().next().map(|v| v.as_str()),
            };
            let r2 = match second {
                Some(s) => {
                    t2[1] = Tok::lit(s.as_bytes());
                    h::parse_tokens(&t2, false)
                }
                None => {
                    let t1 = [t2[0]];
                    h::parse_tokens(&t1, false)
                }
            };
            match &r2 {
                Ok(y) => assert!(*y == *x, "canonical form re-parses to the same value (idempotence)"),
                Err(_) => assert!(false, "canonical form is rejected"),
            }
            core::mem::forget(r2);
        }
        core::mem::forget(r);
    }

    }
}
