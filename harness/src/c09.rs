//! C09 — parsing ignores case, separator choice and the order of unordered parts.
//! Metamorphic: the same symbolic input is parsed twice by the real code; no reference model.
use crate::h;
use crate::k;
use crate::spec;
use crate::sym::{self, Tok};
use unic_langid_impl::LanguageIdentifier;

/// B = A with bit 5 of every ASCII letter flipped under a symbolic mask
fn recase(t: &Tok) -> Tok {
    let mut o = *t;
    let mut i = 0;
    while i < spec::TMAX {
        if spec::is_alpha(o.b[i]) && k::bool() {
            o.b[i] ^= 0x20;
        }
        i += 1;
    }
    o
}

fn same_outcome(a: &Result<LanguageIdentifier, unic_langid_impl::LanguageIdentifierError>, b: &Result<LanguageIdentifier, unic_langid_impl::LanguageIdentifierError>) -> bool {
    match (a, b) {
        (Ok(x), Ok(y)) => x == y,
        (Err(_), Err(_)) => true,
        _ => false,
    }
}

fn case_insensitive<const K: usize>() {
    let a: [Tok; K] = h::toks9();
    h::note_toks(&a);
    let mut b = a;
    let mut i = 0;
    while i < K {
        b[i] = recase(&a[i]);
        i += 1;
    }
    h::note_toks(&b);
    let ra = h::parse_tokens(&a, false);
    let rb = h::parse_tokens(&b, false);
    cover!(ra.is_ok() && a[0].b[0] != b[0].b[0]);
    cover!(ra.is_err());
    assert!(same_outcome(&ra, &rb), "inputs differing only in letter case both fail or parse to equal values");
    core::mem::forget(ra);
    core::mem::forget(rb);
}

use unic_locale_impl::extensions::{TransformExtensionList, UnicodeExtensionList};
use unic_locale_impl::parser::ParserError as LocErr;

fn same_u(a: &(Result<UnicodeExtensionList, LocErr>, usize), b: &(Result<UnicodeExtensionList, LocErr>, usize)) -> bool {
    match (&a.0, &b.0) {
        (Ok(x), Ok(y)) => x == y && a.1 == b.1,
        (Err(_), Err(_)) => true,
        _ => false,
    }
}
fn same_t(a: &(Result<TransformExtensionList, LocErr>, usize), b: &(Result<TransformExtensionList, LocErr>, usize)) -> bool {
    match (&a.0, &b.0) {
        (Ok(x), Ok(y)) => x == y && a.1 == b.1,
        (Err(_), Err(_)) => true,
        _ => false,
    }
}
/// observational equality of two attribute-only -u- results: same outcome, same attributes() sequence,
/// no keywords on either side, same number of subtags consumed
fn same_u_attrs(a: &(Result<UnicodeExtensionList, LocErr>, usize), b: &(Result<UnicodeExtensionList, LocErr>, usize)) -> bool {
    match (&a.0, &b.0) {
        (Ok(x), Ok(y)) => {
            let mut ia = x.attributes();
            let mut ib = y.attributes();
            if ia.len() != ib.len() || x.keyword_keys().len() != 0 || y.keyword_keys().len() != 0 {
                return false;
            }
            let n = ia.len();
            let mut i = 0;
            while i < crate::spec::VMAX {
                if i < n {
                    match (ia.next(), ib.next()) {
                        (Some(p), Some(q)) => {
                            if p != q {
                                return false;
                            }
                        }
                        _ => return false,
                    }
                }
                i += 1;
            }
            a.1 == b.1 && x.is_empty() == y.is_empty()
        }
        (Err(_), Err(_)) => true,
        _ => false,
    }
}
fn recase_all<const K: usize>(a: &[Tok; K]) -> [Tok; K] {
    let mut b = *a;
    let mut i = 0;
    while i < K {
        b[i] = recase(&a[i]);
        i += 1;
    }
    b
}

/// -u- body on a length-profiled frame, and the same frame under a symbolic letter-case mask
fn u_case<const K: usize>(lens: [usize; K]) {
    let a = h::toks_len(lens);
    let b = recase_all(&a);
    h::note_toks(&a);
    h::note_toks(&b);
    let ra = h::parse_ulist_tokens(&a);
    let rb = h::parse_ulist_tokens(&b);
    cover!(ra.0.is_ok() && a[0].b[0] != b[0].b[0]);
    assert!(same_u(&ra, &rb), "-u- bodies differing only in letter case both fail or parse to equal values, consuming the same subtags");
    core::mem::forget((ra, rb));
}
fn t_case<const K: usize>(lens: [usize; K]) {
    let a = h::toks_len(lens);
    let b = recase_all(&a);
    h::note_toks(&a);
    h::note_toks(&b);
    let ra = h::parse_tlist_tokens(&a);
    let rb = h::parse_tlist_tokens(&b);
    cover!(ra.0.is_ok() && a[0].b[0] != b[0].b[0]);
    assert!(same_t(&ra, &rb), "-t- bodies differing only in letter case both fail or parse to equal values, consuming the same subtags");
    core::mem::forget((ra, rb));
}

proofs! {

// -u- attributes: order and repetition do not matter.  Compared through the getters (attributes()
// element by element, no keywords): the derived `==` walks the B-tree maps of two parser results,
// whose roots are merged with the error paths (measured: out of memory at 16 GB)
[push, sortt] fn c09_attr_order() {
    let a1 = sym::tok_len(3);
    let a2 = sym::tok_len(3);
    let a = [a1, a2];
    let b = [a2, a1];
    h::note_toks(&a);
    let ra = h::parse_ulist_tokens(&a);
    let rb = h::parse_ulist_tokens(&b);
    let both = spec::info(&a1).is_utype() && spec::info(&a2).is_utype();
    cover!(both && ra.0.is_ok());
    if both {
        assert!(same_u_attrs(&ra, &rb), "order of -u- attributes does not matter");
    }
    core::mem::forget((ra, rb));
}
[push, sortt] fn c09_attr_repeat() {
    let a1 = sym::tok_len(3);
    let a2 = sym::tok_len(3);
    let a = [a1, a2];
    let c = [a1, a2, a1];
    h::note_toks(&a);
    let ra = h::parse_ulist_tokens(&a);
    let rc = h::parse_ulist_tokens(&c);
    let both = spec::info(&a1).is_utype() && spec::info(&a2).is_utype();
    cover!(both && ra.0.is_ok());
    if both {
        assert!(same_u_attrs(&ra, &rc), "repetition of -u- attributes does not matter");
    }
    core::mem::forget((ra, rc));
}
[push, sortt] fn c09_u_case_3() { u_case([3]) }
[push, sortt] fn c09_u_case_2_3() { u_case([2, 3]) }
[push, sortt, sortv, boxed] fn c09_t_case_2_3() { t_case([2, 3]) }

// -u- keywords with distinct keys, -t- fields with distinct keys: order does not matter (two map entries)
[push, sortt] fn c09_keyword_order() {
    let (k1, v1, k2, v2) = (sym::tok_len(2), sym::tok_len(3), sym::tok_len(2), sym::tok_len(4));
    let a = [k1, v1, k2, v2];
    let b = [k2, v2, k1, v1];
    h::note_toks(&a);
    let distinct = spec::txt_cmp(&spec::info(&k1).lower(), &spec::info(&k2).lower()) != 0;
    let ra = h::parse_ulist_tokens(&a);
    let rb = h::parse_ulist_tokens(&b);
    cover!(distinct && ra.0.is_ok());
    if distinct {
        assert!(same_u(&ra, &rb), "order of -u- keywords with distinct keys does not matter");
    }
    core::mem::forget((ra, rb));
}
[push, sortt, sortv, boxed] fn c09_tfield_order() {
    let (k1, v1, k2, v2) = (sym::tok_len(2), sym::tok_len(3), sym::tok_len(2), sym::tok_len(4));
    let a = [k1, v1, k2, v2];
    let b = [k2, v2, k1, v1];
    h::note_toks(&a);
    let (i1, i2) = (spec::info(&k1), spec::info(&k2));
    let distinct = i1.is_tkey() && i2.is_tkey() && spec::txt_cmp(&i1.lower(), &i2.lower()) != 0;
    let ra = h::parse_tlist_tokens(&a);
    let rb = h::parse_tlist_tokens(&b);
    cover!(distinct && ra.0.is_ok());
    if distinct {
        assert!(same_t(&ra, &rb), "order of -t- fields with distinct keys does not matter");
    }
    core::mem::forget((ra, rb));
}

// separators in a full identifier: every '?' is '-' or '_' (symbolic) vs the all-'-' spelling
[push, sortv, boxed] fn c09_sep_langid() {
    let pat = b"en?Latn?US?macos";
    let mut buf = *pat;
    let mut i = 0;
    while i < pat.len() {
        if pat[i] == b'?' {
            buf[i] = if k::bool() { b'_' } else { b'-' };
        }
        i += 1;
    }
    #[cfg(not(kani))]
    eprintln!("INPUT a={:?}", String::from_utf8_lossy(&buf));
    let ra = LanguageIdentifier::from_bytes(&buf);
    let rb = LanguageIdentifier::from_bytes(b"en-Latn-US-macos");
    cover!(ra.is_ok() && buf[2] == b'_');
    assert!(rb.is_ok());
    assert!(same_outcome(&ra, &rb), "'-' and '_' are interchangeable");
    core::mem::forget((ra, rb));
}

// the four concrete separator spellings of one identifier (finite: enumerated, every run of the real
// from_bytes is still under Kani's panic / overflow checks); the symbolic versions are c09_sep_langid
// and c02_sep_* (thorough)
[push, sortv, boxed] fn c09_sep_concrete() {
    let want = LanguageIdentifier::from_bytes(b"en-US-macos");
    assert!(want.is_ok());
    let r1 = LanguageIdentifier::from_bytes(b"en_US-macos");
    let r2 = LanguageIdentifier::from_bytes(b"en-US_macos");
    let r3 = LanguageIdentifier::from_bytes(b"en_US_macos");
    cover!(r3.is_ok());
    assert!(same_outcome(&want, &r1) && same_outcome(&want, &r2) && same_outcome(&want, &r3), "'-' and '_' are interchangeable");
    core::mem::forget((want, r1, r2, r3));
}

[push, sortv, boxed] fn c09_case_1() { case_insensitive::<1>() }
[push, sortv, boxed] fn c09_case_2() { case_insensitive::<2>() }
[push, sortv, boxed] fn c09_case_3() { case_insensitive::<3>() }

// order and repetition of variants: [L, V1, V2] vs [L, V2, V1] vs [L, V1, V2, V1]
[push, sortv, boxed] fn c09_variant_order() {
    let l = sym::tok9();
    let v1 = sym::tok9();
    let v2 = sym::tok9();
    let a = [l, v1, v2];
    let b = [l, v2, v1];
    let c = [l, v1, v2, v1];
    h::note_toks(&a);
    let ra = h::parse_tokens(&a, false);
    let rb = h::parse_tokens(&b, false);
    let rc = h::parse_tokens(&c, false);
    cover!(ra.is_ok() && spec::info(&v1).is_variant() && spec::info(&v2).is_variant());
    // the permutation is only "of unordered parts" when both are variants
    if spec::info(&v1).is_variant() && spec::info(&v2).is_variant() {
        assert!(same_outcome(&ra, &rb), "order of variant subtags does not matter");
        assert!(same_outcome(&ra, &rc), "repetition of variant subtags does not matter");
    }
    core::mem::forget((ra, rb, rc));
}

// separators: every byte string of <= 4 bytes, '-' and '_' exchanged under a symbolic mask
[push, sortv, boxed] fn c09_separators_4() {
    let a: [u8; 4] = k::bytes();
    let n = k::usize();
    k::assume(n <= 4);
    let mut b = a;
    let mut i = 0;
    let mut changed = false;
    while i < 4 {
        if spec::is_sep(a[i]) && k::bool() {
            b[i] = if a[i] == b'-' { b'_' } else { b'-' };
            changed = true;
        }
        i += 1;
    }
    #[cfg(not(kani))]
    eprintln!("INPUT a={:?} b={:?}", String::from_utf8_lossy(&a[..n]), String::from_utf8_lossy(&b[..n]));
    let ra = LanguageIdentifier::from_bytes(&a[..n]);
    let rb = LanguageIdentifier::from_bytes(&b[..n]);
    cover!(changed && ra.is_ok());
    assert!(same_outcome(&ra, &rb), "'-' and '_' are interchangeable");
    core::mem::forget((ra, rb));
}

}
