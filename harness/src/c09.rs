//! C09 — parsing ignores case, separator choice and the order of unordered parts.
//! Metamorphic: the same symbolic input is parsed twice by the real code; no reference model.
use crate::h;
use crate::k;
use crate::spec;
use crate::sym::{self, Tok};
use unic_langid_impl::LanguageIdentifier;

/// B = A with bit 5 of every ASCII letter flipped under a symbolic mask
fn recase(t: &Tok) -> Tok {
    let mut o = *t;
    let mut i = 0;
    while i < spec::TMAX {
        if spec::is_alpha(o.b[i]) && k::bool() {
            o.b[i] ^= 0x20;
        }
        i += 1;
    }
    o
}

fn same_outcome(a: &Result<LanguageIdentifier, unic_langid_impl::LanguageIdentifierError>, b: &Result<LanguageIdentifier, unic_langid_impl::LanguageIdentifierError>) -> bool {
    match (a, b) {
        (Ok(x), Ok(y)) => x == y,
        (Err(_), Err(_)) => true,
        _ => false,
    }
}

fn case_insensitive<const K: usize>() {
    let a: [Tok; K] = h::toks9();
    h::note_toks(&a);
    let mut b = a;
    let mut i = 0;
    while i < K {
        b[i] = recase(&a[i]);
        i += 1;
    }
    h::note_toks(&b);
    let ra = h::parse_tokens(&a, false);
    let rb = h::parse_tokens(&b, false);
    cover!(ra.is_ok() && a[0].b[0] != b[0].b[0]);
    cover!(ra.is_err());
    assert!(same_outcome(&ra, &rb), "inputs differing only in letter case both fail or parse to equal values");
    core::mem::forget(ra);
    core::mem::forget(rb);
}

proofs! {

[push, sortv, boxed] fn c09_case_1() { case_insensitive::<1>() }
[push, sortv, boxed] fn c09_case_2() { case_insensitive::<2>() }
[push, sortv, boxed] fn c09_case_3() { case_insensitive::<3>() }

// order and repetition of variants: [L, V1, V2] vs [L, V2, V1] vs [L, V1, V2, V1]
[push, sortv, boxed] fn c09_variant_order() {
    let l = sym::tok9();
    let v1 = sym::tok9();
    let v2 = sym::tok9();
    let a = [l, v1, v2];
    let b = [l, v2, v1];
    let c = [l, v1, v2, v1];
    h::note_toks(&a);
    let ra = h::parse_tokens(&a, false);
    let rb = h::parse_tokens(&b, false);
    let rc = h::parse_tokens(&c, false);
    cover!(ra.is_ok() && spec::info(&v1).is_variant() && spec::info(&v2).is_variant());
    // the permutation is only "of unordered parts" when both are variants
    if spec::info(&v1).is_variant() && spec::info(&v2).is_variant() {
        assert!(same_outcome(&ra, &rb), "order of variant subtags does not matter");
        assert!(same_outcome(&ra, &rc), "repetition of variant subtags does not matter");
    }
    core::mem::forget((ra, rb, rc));
}

// separators: every byte string of <= 4 bytes, '-' and '_' exchanged under a symbolic mask
[push, sortv, boxed] fn c09_separators_4() {
    let a: [u8; 4] = k::bytes();
    let n = k::usize();
    k::assume(n <= 4);
    let mut b = a;
    let mut i = 0;
    let mut changed = false;
    while i < 4 {
        if spec::is_sep(a[i]) && k::bool() {
            b[i] = if a[i] == b'-' { b'_' } else { b'-' };
            changed = true;
        }
        i += 1;
    }
    #[cfg(not(kani))]
    eprintln!("INPUT a={:?} b={:?}", String::from_utf8_lossy(&a[..n]), String::from_utf8_lossy(&b[..n]));
    let ra = LanguageIdentifier::from_bytes(&a[..n]);
    let rb = LanguageIdentifier::from_bytes(&b[..n]);
    cover!(changed && ra.is_ok());
    assert!(same_outcome(&ra, &rb), "'-' and '_' are interchangeable");
    core::mem::forget((ra, rb));
}

}
