//! C03 — Locale parsing accepts all well-formed locale ids and never silently drops input.
//!
//! Decomposed along the parser's own structure (DESIGN 4, C03): each extension *body* parser is
//! compared with the reference on length-profiled frames (lengths concrete, all contents
//! symbolic), including how many subtags it must leave for the dispatcher; the *dispatcher* is
//! compared with the reference on fully symbolic subtags; composition frames go through the
//! whole extension map.
use crate::h;
use crate::k;
use crate::spec;
use crate::sym::{self, Tok};
use crate::xspec::{self, Disp};

/// -u- body: tokens of the given lengths through the real UnicodeExtensionList::try_from_iter
pub fn uframe<const K: usize>(lens: [usize; K]) {
    uframe_toks(h::toks_len(lens))
}
pub fn uframe_toks<const K: usize>(toks: [Tok; K]) {
    h::note_toks(&toks);
    let inf = spec::infos(&toks);
    let (want, end, over) = xspec::parse_u(&inf, 0);
    k::assume(!over);
    // duplicate keyword keys are outside C03
    if let Ok(m) = &want {
        k::assume(K < 2 || m.kw.nkeys == count_keys(&inf));
    }
    let (got, left) = h::parse_ulist_tokens(&toks);
    cover!(got.is_ok());
    match (&got, &want) {
        (Ok(u), Ok(m)) => {
            assert!(h::ulist_is_lite(u, m), "-u- body: attributes, keyword keys and types equal the reference (normalised)");
            assert!(left == K - end, "-u- body ends exactly at the first subtag that cannot continue it");
        }
        (Err(_), Err(_)) => {}
        (Ok(_), Err(_)) => assert!(false, "-u- body accepted a malformed key"),
        (Err(_), Ok(_)) => assert!(may_reject_at(&inf, &toks, end), "-u- body rejected a well-formed prefix instead of stopping at a singleton"),
    }
    core::mem::forget(got);
}
/// The body parser may itself return Err instead of stopping at token `end` exactly when the
/// dispatcher would have to reject (or may reject) that token anyway: the property judges the result
/// of the whole parse, and `[.., body, junk]` is rejected either way.  Only a token the dispatcher must
/// accept (a singleton t/u/x) obliges the body to stop and hand over.
fn may_reject_at<const K: usize>(inf: &[spec::Info; K], toks: &[Tok; K], end: usize) -> bool {
    let mut ok = false;
    let mut i = 0;
    while i < K {
        if i == end {
            ok = match xspec::dispatch(&inf[i], toks[i].b[0]) {
                Disp::U | Disp::T | Disp::X => false,
                Disp::Empty | Disp::Other | Disp::Reject => true,
            };
        }
        i += 1;
    }
    ok
}
/// a tkey without a value is ill-formed by the EBNF (tfield = tkey tvalue+): either answer
fn t_empty_field(m: &xspec::TModel) -> bool {
    let mut e = false;
    let mut i = 0;
    while i < xspec::KMAX {
        if i < m.fields.nkeys && m.fields.nvals[i] == 0 {
            e = true;
        }
        i += 1;
    }
    e
}
fn count_keys<const K: usize>(inf: &[spec::Info; K]) -> usize {
    let mut n = 0;
    let mut i = 0;
    while i < K {
        if inf[i].n == 2 {
            n += 1;
        }
        i += 1;
    }
    n
}
fn count_tkeys<const K: usize>(inf: &[spec::Info; K]) -> usize {
    let mut n = 0;
    let mut i = 0;
    while i < K {
        if inf[i].is_tkey() {
            n += 1;
        }
        i += 1;
    }
    n
}

pub fn tframe<const K: usize>(lens: [usize; K]) {
    tframe_toks(h::toks_len(lens))
}
pub fn tframe_toks<const K: usize>(toks: [Tok; K]) {
    h::note_toks(&toks);
    let inf = spec::infos(&toks);
    let (want, end, over) = xspec::parse_t(&inf, 0);
    k::assume(!over);
    if let Ok(m) = &want {
        k::assume(m.fields.nkeys == count_tkeys(&inf) || end < K);
    }
    let (got, left) = h::parse_tlist_tokens(&toks);
    cover!(got.is_ok() || toks[K - 1].n > 8);
    match (&got, &want) {
        (Ok(t), Ok(m)) => {
            assert!(h::tlist_is_lite(t, m), "-t- body: tlang, tfield keys and values equal the reference (normalised)");
            assert!(left == K - end, "-t- body ends exactly at the first subtag that cannot continue it");
        }
        (Err(_), Err(_)) => {}
        (Ok(_), Err(_)) => assert!(false, "-t- body accepted a malformed tlang"),
        (Err(_), Ok(m)) => assert!(may_reject_at(&inf, &toks, end) || t_empty_field(m), "-t- body rejected a well-formed prefix instead of stopping at a singleton"),
    }
    core::mem::forget(got);
}

/// -t- / -u- body on a frame with some concrete positions
pub fn tframe_pos<const K: usize>(spec_: [Pos; K]) {
    tframe_toks(frame_toks(spec_))
}
pub fn uframe_pos<const K: usize>(spec_: [Pos; K]) {
    uframe_toks(frame_toks(spec_))
}

pub fn xframe<const K: usize>() {
    let toks: [Tok; K] = h::toks9();
    h::note_toks(&toks);
    let inf = spec::infos(&toks);
    let want = xspec::parse_x(&inf, 0);
    let got = h::parse_plist_tokens(&toks);
    cover!(got.is_ok());
    cover!(got.is_err());
    match (&got, &want) {
        (Ok(p), Ok(m)) => assert!(h::plist_is(p, m), "-x- tags equal the reference (lower case, sorted)"),
        (Err(_), Err(_)) => {}
        (Ok(_), Err(_)) => assert!(false, "-x- accepted a malformed subtag"),
        (Err(_), Ok(_)) => assert!(false, "-x- rejected well-formed private-use subtags"),
    }
    core::mem::forget(got);
}

macro_rules! frames {
    ($f:ident, $tags:tt, $( $name:ident = [$($l:expr),*] ; )*) => {
        proofs! { $( $tags fn $name() { $f([$($l),*]) } )* }
    };
}

pub mod u {
    use super::*;
    frames! { uframe, [push, sortt],
        c03_u_3 = [3];
        c03_u_2 = [2];
        c03_u_2_3 = [2, 3];
        c03_u_3_3 = [3, 3];
        c03_u_8_2_4 = [8, 2, 4];
        c03_u_2_4_1 = [2, 4, 1];
        c03_u_2_3_9 = [2, 3, 9];
        c03_u_3_0 = [3, 0];
        c03_u_1 = [1];
        c03_u_9 = [9];
        c03_u_2_2 = [2, 2];
        c03_u_2_3_2_3 = [2, 3, 2, 3];
        c03_u_4 = [4];
        c03_u_4_2_4 = [4, 2, 4];
        c03_u_5_3 = [5, 3];
    }
}
pub mod t {
    use super::*;
    frames! { tframe, [push, sortt, sortv, boxed],
        c03_t_2 = [2];
        c03_t_2_3 = [2, 3];
        c03_t_3 = [3];
        c03_t_2_3_1 = [2, 3, 1];
        c03_t_2_2_3 = [2, 2, 3];
        c03_t_2_5_2 = [2, 5, 2];
        c03_t_2_3_2_3 = [2, 3, 2, 3];
        c03_t_3_3 = [3, 3];
        c03_t_3_4 = [3, 4];
        c03_t_8_3 = [8, 3];
        c03_t_3_1 = [3, 1];
    }
}
pub mod tk {
    use super::*;
    proofs! {
        // concrete tkey, symbolic rest: value classification, where the body must stop, second tlang
        [push, sortt, sortv, boxed] fn c03_tk_h0_3() { tframe_toks([lit(b"h0"), len(3)]) }
        [push, sortt, sortv, boxed] fn c03_tk_h0_3_1() { tframe_toks([lit(b"h0"), len(3), len(1)]) }
        [push, sortt, sortv, boxed] fn c03_tk_h0_3_9() { tframe_toks([lit(b"h0"), len(3), len(9)]) }
        [push, sortt, sortv, boxed] fn c03_tk_h0_4_5() { tframe_toks([lit(b"H0"), len(4), len(5)]) }
        [push, sortt, sortv, boxed] fn c03_tk_h0_3_k0_4() { tframe_toks([lit(b"k0"), len(3), lit(b"h0"), len(4)]) }
        [push, sortt, sortv, boxed] fn c03_tk_en_5_2() { tframe_toks([lit(b"en"), len(5), len(2)]) }
        [push, sortt, sortv, boxed] fn c03_tk_en_h0_3() { tframe_toks([lit(b"en"), lit(b"h0"), len(3)]) }
        // (near-)concrete probes of the two -t- clauses whose symbolic frames are out of reach: a field
        // followed by a singleton (what Display emits before -u-/-x-), and a second tlang
        [push, sortt, sortv, boxed] fn c03_tk_h0_hybrid_sing() { tframe_toks([lit(b"h0"), lit(b"hybrid"), sing(b'u')]) }
        [push, sortt, sortv, boxed] fn c03_tk_en_de() { tframe_toks([lit(b"en"), lit(b"de")]) }
        [push, sortt, sortv, boxed] fn c03_tk_en_us_de() { tframe_toks([lit(b"en"), lit(b"US"), lit(b"de")]) }
        [push, sortt, sortv, boxed] fn c03_tk_en_us_3() { tframe_toks([lit(b"en"), lit(b"US"), len(3)]) }
        // concrete ukey
        [push, sortt] fn c03_uk_ca_3() { uframe_toks([lit(b"ca"), len(3)]) }
        [push, sortt] fn c03_uk_ca_4_1() { uframe_toks([lit(b"CA"), len(4), len(1)]) }
        [push, sortt] fn c03_uk_3_ca_4() { uframe_toks([len(3), lit(b"ca"), len(4)]) }
        [push, sortt] fn c03_uk_nu_3_ca_4() { uframe_toks([lit(b"nu"), len(3), lit(b"ca"), len(4)]) }
    }
}
pub mod x {
    use super::*;
    proofs! {
        [push, sortt] fn c03_x_1() { xframe::<1>() }
        [push, sortt] fn c03_x_2() { xframe::<2>() }
        [push, sortt] fn c03_x_3() { xframe::<3>() }
    }
}

// ---- dispatcher --------------------------------------------------------------------------

proofs! {

// the subtag that follows the language identifier (or an extension body): any bytes, any length
[push, sortt, sortv, boxed] fn c03_dispatch_1() {
    let toks: [Tok; 1] = h::toks9();
    h::note_toks(&toks);
    let inf = spec::infos(&toks);
    let d = xspec::dispatch(&inf[0], toks[0].b[0]);
    let got = h::parse_extmap_tokens(&toks);
    cover!(got.is_ok() && d == Disp::U);
    cover!(got.is_err());
    match d {
        Disp::U | Disp::T | Disp::X => {
            // a singleton with an empty body: ill-formed only through emptiness -> either answer,
            // but an accepted value must be empty
            if let Ok(m) = &got {
                assert!(m.is_empty() && m.other.is_empty(), "empty extension body yields an empty map");
            }
        }
        Disp::Empty => {
            if let Ok(m) = &got {
                assert!(m.is_empty() && m.other.is_empty());
            }
        }
        Disp::Other => {
            // may be rejected or supported
        }
        Disp::Reject => assert!(got.is_err(), "a subtag that is not a singleton must be rejected, not dispatched on its first byte"),
    }
    core::mem::forget(got);
}

}

// ---- composition frames through the whole extension map ----------------------------------

/// frame positions as plain values (not through an enum array: reading a `&[u8]` payload back out of
/// an enum makes its length a byte-extract expression for CBMC, and every "concrete" subtag of a frame
/// then has a symbolic length - measured: the fully concrete frame [en, de] did not finish in 15 min)
pub fn lit(s: &'static [u8]) -> Tok {
    Tok::lit(s)
}
pub fn len(n: usize) -> Tok {
    sym::tok_len(n)
}
/// a singleton letter in symbolic case
pub fn sing(c: u8) -> Tok {
    let up = k::bool();
    Tok::lit(&[if up { spec::upper(c) } else { c }])
}

/// one position of a composition frame
#[derive(Clone, Copy)]
pub enum Pos {
    /// a singleton letter in symbolic case
    Sing(u8),
    /// exactly n arbitrary bytes
    Len(usize),
    /// a concrete subtag (keeps map keys concrete: the B-tree code then runs on constants)
    Lit(&'static [u8]),
}
pub fn frame_toks<const K: usize>(spec_: [Pos; K]) -> [Tok; K] {
    let mut a = [Tok::lit(b""); K];
    let mut i = 0;
    while i < K {
        a[i] = match spec_[i] {
            Pos::Sing(c) => {
                let up = k::bool();
                Tok::lit(&[if up { spec::upper(c) } else { c }])
            }
            Pos::Len(n) => sym::tok_len(n),
            Pos::Lit(l) => Tok::lit(l),
        };
        i += 1;
    }
    a
}

/// the whole extension map on a frame, against the three-zone oracle `xspec::parse_map`
pub fn mapframe<const K: usize>(spec_: [Pos; K]) {
    mapframe_toks(frame_toks(spec_))
}
pub fn mapframe_toks<const K: usize>(toks: [Tok; K]) {
    h::note_toks(&toks);
    let inf = spec::infos(&toks);
    let want = xspec::parse_map(&inf, &toks);
    k::assume(!want.over);
    let got = h::parse_extmap_tokens(&toks);
    cover!(got.is_ok());
    cover!(got.is_err());
    match want.zone {
        xspec::Zone::MustAccept => match &got {
            Ok(m) => {
                assert!(h::ulist_is_lite(&m.unicode, &want.u), "-u- content equals the reference");
                assert!(h::tlist_is_lite(&m.transform, &want.t), "-t- content equals the reference");
                assert!(h::plist_is(&m.private, &want.p), "-x- content equals the reference");
                assert!(m.other.is_empty());
            }
            Err(_) => assert!(false, "a well-formed extension sequence is rejected"),
        },
        xspec::Zone::MustReject => assert!(got.is_err(), "ill-formed extension sequence (malformed / misplaced subtag, repeated singleton, second tlang) must be rejected, not partially dropped"),
        xspec::Zone::Either => {}
    }
    core::mem::forget(got);
}

pub mod map {
    use super::*;
    proofs! {
        // concrete probes of the composition clauses (the symbolic frames below are out of reach)
        [push, sortt, sortv, boxed] fn c03_mapk_u_foo_u_bar() { mapframe_toks([lit(b"u"), lit(b"foo"), lit(b"u"), lit(b"bar")]) }
        [push, sortt, sortv, boxed] fn c03_mapk_u_foo_x_a() { mapframe_toks([lit(b"u"), lit(b"foo"), lit(b"x"), lit(b"a")]) }
        [push, sortt, sortv, boxed] fn c03_map_u3_u3() { mapframe_toks([sing(b'u'), len(3), sing(b'u'), len(3)]) }
        [push, sortt, sortv, boxed] fn c03_map_u3_x3() { mapframe_toks([sing(b'u'), len(3), sing(b'x'), len(3)]) }
        [push, sortt, sortv, boxed] fn c03_map_t2_3_u3() { mapframe_toks([sing(b't'), len(2), len(3), sing(b'u'), len(3)]) }
        [push, sortt, sortv, boxed] fn c03_map_u3_t2() { mapframe_toks([sing(b'u'), len(3), sing(b't'), len(2)]) }
        [push, sortt, sortv, boxed] fn c03_map_t2_t2() { mapframe_toks([sing(b't'), len(2), sing(b't'), len(2)]) }
        [push, sortt, sortv, boxed] fn c03_map_u2_3_t2_3_x3() { mapframe_toks([sing(b'u'), len(2), len(3), sing(b't'), len(2), len(3), sing(b'x'), len(3)]) }
    }
}
