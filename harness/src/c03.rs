//! C03 — Locale parsing accepts all well-formed locale ids and never silently drops input.
//!
//! Decomposed along the parser's own structure (DESIGN 4, C03): each extension *body* parser is
//! compared with the reference on length-profiled frames (lengths concrete, all contents
//! symbolic), including how many subtags it must leave for the dispatcher; the *dispatcher* is
//! compared with the reference on fully symbolic subtags; composition frames go through the
//! whole extension map.
use crate::h;
use crate::k;
use crate::spec;
use crate::sym::{self, Tok};
use crate::xspec::{self, Disp};

/// -u- body: tokens of the given lengths through the real UnicodeExtensionList::try_from_iter
pub fn uframe<const K: usize>(lens: [usize; K]) {
    let toks = h::toks_len(lens);
    h::note_toks(&toks);
    let inf = spec::infos(&toks);
    let (want, end, over) = xspec::parse_u(&inf, 0);
    k::assume(!over);
    // duplicate keyword keys are outside C03
    if let Ok(m) = &want {
        k::assume(K < 2 || m.kw.nkeys == count_keys(&inf));
    }
    let (got, left) = h::parse_ulist_tokens(&toks);
    cover!(got.is_ok());
    match (&got, &want) {
        (Ok(u), Ok(m)) => {
            assert!(h::ulist_is(u, m), "-u- body: attributes, keyword keys and types equal the reference (normalised)");
            assert!(left == K - end, "-u- body ends exactly at the first subtag that cannot continue it");
        }
        (Err(_), Err(_)) => {}
        (Ok(_), Err(_)) => assert!(false, "-u- body accepted a malformed key"),
        (Err(_), Ok(_)) => assert!(false, "-u- body rejected a well-formed prefix instead of stopping"),
    }
    core::mem::forget(got);
}
fn count_keys<const K: usize>(inf: &[spec::Info; K]) -> usize {
    let mut n = 0;
    let mut i = 0;
    while i < K {
        if inf[i].n == 2 {
            n += 1;
        }
        i += 1;
    }
    n
}
fn count_tkeys<const K: usize>(inf: &[spec::Info; K]) -> usize {
    let mut n = 0;
    let mut i = 0;
    while i < K {
        if inf[i].is_tkey() {
            n += 1;
        }
        i += 1;
    }
    n
}

pub fn tframe<const K: usize>(lens: [usize; K]) {
    let toks = h::toks_len(lens);
    h::note_toks(&toks);
    let inf = spec::infos(&toks);
    let (want, end, over) = xspec::parse_t(&inf, 0);
    k::assume(!over);
    if let Ok(m) = &want {
        k::assume(m.fields.nkeys == count_tkeys(&inf) || end < K);
    }
    let (got, left) = h::parse_tlist_tokens(&toks);
    cover!(got.is_ok());
    match (&got, &want) {
        (Ok(t), Ok(m)) => {
            assert!(h::tlist_is(t, m), "-t- body: tlang, tfield keys and values equal the reference (normalised)");
            assert!(left == K - end, "-t- body ends exactly at the first subtag that cannot continue it");
        }
        (Err(_), Err(_)) => {}
        (Ok(_), Err(_)) => assert!(false, "-t- body accepted a malformed tlang"),
        (Err(_), Ok(_)) => assert!(false, "-t- body rejected a well-formed prefix instead of stopping"),
    }
    core::mem::forget(got);
}

pub fn xframe<const K: usize>() {
    let toks: [Tok; K] = h::toks9();
    h::note_toks(&toks);
    let inf = spec::infos(&toks);
    let want = xspec::parse_x(&inf, 0);
    let got = h::parse_plist_tokens(&toks);
    cover!(got.is_ok());
    cover!(got.is_err());
    match (&got, &want) {
        (Ok(p), Ok(m)) => assert!(h::plist_is(p, m), "-x- tags equal the reference (lower case, sorted)"),
        (Err(_), Err(_)) => {}
        (Ok(_), Err(_)) => assert!(false, "-x- accepted a malformed subtag"),
        (Err(_), Ok(_)) => assert!(false, "-x- rejected well-formed private-use subtags"),
    }
    core::mem::forget(got);
}

macro_rules! frames {
    ($f:ident, $tags:tt, $( $name:ident = [$($l:expr),*] ; )*) => {
        proofs! { $( $tags fn $name() { $f([$($l),*]) } )* }
    };
}

pub mod u {
    use super::*;
    frames! { uframe, [push, sortt],
        c03_u_3 = [3];
        c03_u_2 = [2];
        c03_u_2_3 = [2, 3];
        c03_u_3_3 = [3, 3];
        c03_u_8_2_4 = [8, 2, 4];
        c03_u_2_4_1 = [2, 4, 1];
        c03_u_2_3_9 = [2, 3, 9];
        c03_u_3_0 = [3, 0];
        c03_u_1 = [1];
        c03_u_9 = [9];
        c03_u_2_2 = [2, 2];
        c03_u_2_3_2_3 = [2, 3, 2, 3];
    }
}
pub mod t {
    use super::*;
    frames! { tframe, [push, sortt, sortv, boxed],
        c03_t_2 = [2];
        c03_t_2_3 = [2, 3];
        c03_t_3 = [3];
        c03_t_2_3_1 = [2, 3, 1];
        c03_t_2_2_3 = [2, 2, 3];
        c03_t_2_5_2 = [2, 5, 2];
        c03_t_2_3_2_3 = [2, 3, 2, 3];
    }
}
pub mod x {
    use super::*;
    proofs! {
        [push, sortt] fn c03_x_1() { xframe::<1>() }
        [push, sortt] fn c03_x_2() { xframe::<2>() }
        [push, sortt] fn c03_x_3() { xframe::<3>() }
    }
}

// ---- dispatcher --------------------------------------------------------------------------

proofs! {

// the subtag that follows the language identifier (or an extension body): any bytes, any length
[push, sortt, sortv, boxed] fn c03_dispatch_1() {
    let toks: [Tok; 1] = h::toks9();
    h::note_toks(&toks);
    let inf = spec::infos(&toks);
    let d = xspec::dispatch(&inf[0], toks[0].b[0]);
    let got = h::parse_extmap_tokens(&toks);
    cover!(got.is_ok() && d == Disp::U);
    cover!(got.is_err());
    match d {
        Disp::U | Disp::T | Disp::X => {
            // a singleton with an empty body: ill-formed only through emptiness -> either answer,
            // but an accepted value must be empty
            if let Ok(m) = &got {
                assert!(m.is_empty() && m.other.is_empty(), "empty extension body yields an empty map");
            }
        }
        Disp::Empty => {
            if let Ok(m) = &got {
                assert!(m.is_empty() && m.other.is_empty());
            }
        }
        Disp::Other => {
            // may be rejected or supported
        }
        Disp::Reject => assert!(got.is_err(), "a subtag that is not a singleton must be rejected, not dispatched on its first byte"),
    }
    core::mem::forget(got);
}

}
