//! Kani harnesses deciding the properties in /verif/properties.jsonl against the
//! real code in /repo (path dependencies).  See /verif/DESIGN.md.
#![allow(dead_code)]
#![allow(unused_imports)]
#![cfg_attr(kani, feature(allocator_api))]

#[macro_use]
pub mod k;
pub mod spec;
pub mod xspec;
pub mod sym;
#[cfg(kani)]
pub mod stubs;

pub mod gen;
pub mod h;
#[cfg(feature = "likelysubtags")]
pub mod lk;

pub mod c01;
pub mod c02;
pub mod c03;
pub mod c04;
#[cfg(feature = "likelysubtags")]
pub mod c06;
#[cfg(feature = "likelysubtags")]
pub mod c08;
pub mod c09;
pub mod c10;
pub mod c11;
pub mod c12;
pub mod c13;
pub mod c14;
pub mod c15;
pub mod c17;
#[cfg(feature = "serde")]
pub mod c19;
#[cfg(feature = "likelysubtags")]
pub mod c18;

/// every harness, for the native replayer
pub fn all() -> Vec<(&'static str, fn())> {
    let mut v = Vec::new();
    v.extend_from_slice(c01::LIST);
    v.extend_from_slice(c02::LIST);
    v.extend_from_slice(c02::bytes::LIST);
    v.extend_from_slice(c04::LIST);
    v.extend_from_slice(c04::c05::LIST);
    v.extend_from_slice(c04::ext::LIST);
    v.extend_from_slice(c03::LIST);
    v.extend_from_slice(c03::u::LIST);
    v.extend_from_slice(c03::t::LIST);
    v.extend_from_slice(c03::x::LIST);
    v.extend_from_slice(c03::tk::LIST);
    v.extend_from_slice(c03::map::LIST);
    #[cfg(feature = "likelysubtags")]
    {
        v.extend_from_slice(c06::LIST);
        v.extend_from_slice(c06::c07::LIST);
    }
    #[cfg(feature = "likelysubtags")]
    v.extend_from_slice(c08::LIST);
    v.extend_from_slice(c09::LIST);
    v.extend_from_slice(c10::LIST);
    v.extend_from_slice(c11::LIST);
    v.extend_from_slice(c12::LIST);
    v.extend_from_slice(c13::LIST);
    v.extend_from_slice(c14::LIST);
    v.extend_from_slice(c15::LIST);
    v.extend_from_slice(c17::LIST);
    v.extend_from_slice(c17::more::LIST);
    #[cfg(feature = "serde")]
    v.extend_from_slice(c19::LIST);
    #[cfg(feature = "likelysubtags")]
    v.extend_from_slice(c18::LIST);
    v
}
