//! Kani harnesses deciding the properties in /verif/properties.jsonl against the
//! real code in /repo (path dependencies).  See /verif/DESIGN.md.
#![allow(dead_code)]
#![allow(unused_imports)]
#![cfg_attr(kani, feature(allocator_api))]

#[macro_use]
pub mod k;
pub mod spec;
pub mod sym;
#[cfg(kani)]
pub mod stubs;

pub mod h;

pub mod c02;
pub mod c11;
pub mod c12;
pub mod c13;
pub mod c15;
pub mod c17;

/// every harness, for the native replayer
pub fn all() -> Vec<(&'static str, fn())> {
    let mut v = Vec::new();
    v.extend_from_slice(c02::LIST);
    v.extend_from_slice(c11::LIST);
    v.extend_from_slice(c12::LIST);
    v.extend_from_slice(c13::LIST);
    v.extend_from_slice(c15::LIST);
    v.extend_from_slice(c17::LIST);
    v.extend_from_slice(c17::more::LIST);
    v
}
