//! Kani harnesses deciding the properties in /verif/properties.jsonl against the
//! real code in /repo (path dependencies).  See /verif/DESIGN.md.
#![allow(dead_code)]
#![allow(unused_imports)]
#![cfg_attr(kani, feature(allocator_api))]

#[macro_use]
pub mod k;
pub mod spec;
pub mod sym;
#[cfg(kani)]
pub mod stubs;

pub mod h;

pub mod c02;
pub mod c15;

/// every harness, for the native replayer
pub fn all() -> Vec<(&'static str, fn())> {
    let mut v = Vec::new();
    v.extend_from_slice(c02::LIST);
    v.extend_from_slice(c15::LIST);
    v
}
