//! C15 — each subtag type accepts exactly its UTS #35 production and normalises case.
use crate::spec;
use crate::sym::{self, Tok};
use std::convert::TryFrom;
use unic_langid_impl::parser::ParserError;
use unic_langid_impl::subtags::{Language, Region, Script, Variant};

proofs! {

[] fn c15_language_exact() {
    let t = sym::tok9();
    sym::note("t", &t);
    let s = t.bytes();
    let r = Language::from_bytes(s);
    let ok = spec::is_language(s);
    cover!(ok && s.len() == 8);
    cover!(!ok && s.len() == 3);
    assert!(r.is_ok() == ok, "accepts exactly alpha{{2,3}}|alpha{{5,8}}");
    match r {
        Ok(x) => {
            let want = spec::lower8(s);
            assert!(spec::same_text(x.as_str().as_bytes(), &want), "stored text is lower case");
            let und = spec::txt_eq(&want, &spec::UND);
            assert!(x.is_empty() == und, "und is the empty language");
            assert!((x == Language::default()) == und);
        }
        Err(e) => assert!(e == ParserError::InvalidLanguage),
    }
}

[] fn c15_script_exact() {
    let t = sym::tok9();
    sym::note("t", &t);
    let s = t.bytes();
    let r = Script::from_bytes(s);
    let ok = spec::is_script(s);
    cover!(ok);
    cover!(!ok && s.len() == 4);
    assert!(r.is_ok() == ok, "accepts exactly alpha{{4}}");
    if let Ok(x) = r {
        assert!(spec::same_text(x.as_str().as_bytes(), &spec::title8(s)), "Title case");
    }
}

[] fn c15_region_exact() {
    let t = sym::tok9();
    sym::note("t", &t);
    let s = t.bytes();
    let r = Region::from_bytes(s);
    let ok = spec::is_region(s);
    cover!(ok && s.len() == 3);
    cover!(ok && s.len() == 2);
    cover!(!ok && s.len() == 3);
    assert!(r.is_ok() == ok, "accepts exactly alpha{{2}}|digit{{3}}");
    if let Ok(x) = r {
        assert!(spec::same_text(x.as_str().as_bytes(), &spec::upper8(s)), "UPPER case");
    }
}

[] fn c15_variant_exact() {
    let t = sym::tok9();
    sym::note("t", &t);
    let s = t.bytes();
    let r = Variant::from_bytes(s);
    let ok = spec::is_variant(s);
    cover!(ok && s.len() == 4);
    cover!(ok && s.len() == 8);
    cover!(!ok && s.len() == 4);
    assert!(r.is_ok() == ok, "accepts exactly alphanum{{5,8}}|digit alphanum{{3}}");
    if let Ok(x) = r {
        assert!(spec::same_text(x.as_str().as_bytes(), &spec::lower8(s)), "lower case");
    }
}

}
