//! C18 — bundled lookup tables are exactly what the CLDR source data determine.
#![cfg(feature = "likelysubtags")]
use crate::gen::layout::*;
use crate::gen::likely::*;
use crate::k;
use crate::spec;
use unic_langid_impl::likelysubtags::verif_hooks as T;
use unic_langid_impl::subtags::{Language, Region, Script};
use unic_langid_impl::verif_hooks as L;

/// the bytes of a stored integer up to the first zero pass the *checked* constructor and re-encode
/// to the same integer; upper bytes zero
fn lang_ok(v: u64) -> bool {
    let b = v.to_le_bytes();
    let n = spec::txt_len(&b);
    let mut i = 0;
    while i < 8 {
        if i >= n && b[i] != 0 {
            return false;
        }
        i += 1;
    }
    match Language::from_bytes(&b[..n]) {
        Ok(l) => {
            // "und" (the key of CLDR's bare-und entry) is a well-formed language subtag whose
            // value form is the empty language
            let back: Option<u64> = l.into();
            match back {
                Some(b) => b == v,
                None => v == 0x646e75,
            }
        }
        Err(_) => false,
    }
}
fn script_ok(v: u32) -> bool {
    let b = v.to_le_bytes();
    match Script::from_bytes(&b) {
        Ok(s) => {
            let back: u32 = s.into();
            back == v
        }
        Err(_) => false,
    }
}
fn region_ok(v: u32) -> bool {
    let b = v.to_le_bytes();
    let n = if b[3] == 0 { if b[2] == 0 { 2 } else { 3 } } else { 4 };
    match Region::from_bytes(&b[..n]) {
        Ok(s) => {
            let back: u32 = s.into();
            back == v
        }
        Err(_) => false,
    }
}
fn val_ok(v: &(Option<u64>, Option<u32>, Option<u32>), l: u64, s: u32, r: u32) -> bool {
    // every value carries language, script and region, equal to the CLDR value, each well formed
    *v == (Some(l), Some(s), Some(r)) && lang_ok(l) && script_ok(s) && region_ok(r)
}

pub const LO_N: usize = T::LANG_ONLY.len();
macro_rules! column {
    ($name:ident, $ty:ty, $e:ident => $val:expr) => {
        pub static $name: [$ty; LO_N] = {
            let mut a = [0 as $ty; LO_N];
            let mut j = 0;
            while j < LO_N {
                let $e = &T::LANG_ONLY[j];
                a[j] = $val;
                j += 1;
            }
            a
        };
    };
}
column!(LO_K, u64, e => e.0);
// 0 = absent (never a valid subtag integer), so an absent value subtag cannot equal the reference
column!(LO_VL, u64, e => match e.1 .0 { Some(v) => v, None => 0 });
column!(LO_VS, u32, e => match e.1 .1 { Some(v) => v, None => 0 });
column!(LO_VR, u32, e => match e.1 .2 { Some(v) => v, None => 0 });

proofs! {

// The 7143-row table: CBMC cannot carry a symbolic index into an array of 40-byte tuples of
// that size (no verdict in 30 min, 18 GB), nor a 7143-iteration copy loop in symbolic execution.
// The compiled static is therefore flattened into plain integer columns by rustc's constant
// evaluator (`LO_*` below are computed at compile time *from the compiled static itself*), and
// the solver decides the row property for a symbolic row index over those columns.  A second
// query decides that every reference integer of a row is well formed (with the first query this
// carries over to the compiled row).
[] fn c18_lang_only() {
    assert!(LO_N == REF_LANG_ONLY_K0.len(), "one entry per CLDR key");
    let i = k::usize();
    k::assume(i < LO_N);
    cover!(i == 7142);
    assert!(LO_K[i] == REF_LANG_ONLY_K0[i], "key equals the i-th CLDR key in integer order");
    assert!(LO_VL[i] != 0 && LO_VS[i] != 0 && LO_VR[i] != 0, "value has language, script and region");
    assert!(LO_VL[i] == REF_LANG_ONLY_VL[i] && LO_VS[i] == REF_LANG_ONLY_VS[i] && LO_VR[i] == REF_LANG_ONLY_VR[i], "value is the CLDR value");
    if i + 1 < LO_N {
        assert!(LO_K[i] < LO_K[i + 1], "strictly increasing in the binary search's key order");
    }
}
[] fn c18_lang_only_wellformed() {
    let i = k::usize();
    k::assume(i < REF_LANG_ONLY_K0.len());
    cover!(i == 7142);
    assert!(lang_ok(REF_LANG_ONLY_K0[i]), "key decodes to a well-formed language");
    assert!(lang_ok(REF_LANG_ONLY_VL[i]) && script_ok(REF_LANG_ONLY_VS[i]) && region_ok(REF_LANG_ONLY_VR[i]), "value subtags well formed");
}

[] fn c18_lang_region() {
    assert!(T::LANG_REGION.len() == REF_LANG_REGION_K0.len());
    let i = k::usize();
    k::assume(i < REF_LANG_REGION_K0.len());
    let e = &T::LANG_REGION[i];
    cover!(i == 61);
    assert!(e.0 == REF_LANG_REGION_K0[i] && e.1 == REF_LANG_REGION_K1[i]);
    assert!(val_ok(&e.2, REF_LANG_REGION_VL[i], REF_LANG_REGION_VS[i], REF_LANG_REGION_VR[i]));
    assert!(lang_ok(e.0) && region_ok(e.1));
    if i + 1 < T::LANG_REGION.len() {
        let n = &T::LANG_REGION[i + 1];
        assert!((e.0, e.1) < (n.0, n.1), "strictly increasing");
    }
}

[] fn c18_lang_script() {
    assert!(T::LANG_SCRIPT.len() == REF_LANG_SCRIPT_K0.len());
    let i = k::usize();
    k::assume(i < REF_LANG_SCRIPT_K0.len());
    let e = &T::LANG_SCRIPT[i];
    cover!(i == 377);
    assert!(e.0 == REF_LANG_SCRIPT_K0[i] && e.1 == REF_LANG_SCRIPT_K1[i]);
    assert!(val_ok(&e.2, REF_LANG_SCRIPT_VL[i], REF_LANG_SCRIPT_VS[i], REF_LANG_SCRIPT_VR[i]));
    assert!(lang_ok(e.0) && script_ok(e.1));
    if i + 1 < T::LANG_SCRIPT.len() {
        let n = &T::LANG_SCRIPT[i + 1];
        assert!((e.0, e.1) < (n.0, n.1), "strictly increasing");
    }
}

[] fn c18_script_region() {
    assert!(T::SCRIPT_REGION.len() == REF_SCRIPT_REGION_K0.len());
    let i = k::usize();
    k::assume(i < REF_SCRIPT_REGION_K0.len());
    let e = &T::SCRIPT_REGION[i];
    cover!(i == 214);
    assert!(e.0 == REF_SCRIPT_REGION_K0[i] && e.1 == REF_SCRIPT_REGION_K1[i]);
    assert!(val_ok(&e.2, REF_SCRIPT_REGION_VL[i], REF_SCRIPT_REGION_VS[i], REF_SCRIPT_REGION_VR[i]));
    assert!(script_ok(e.0) && region_ok(e.1));
    if i + 1 < T::SCRIPT_REGION.len() {
        let n = &T::SCRIPT_REGION[i + 1];
        assert!((e.0, e.1) < (n.0, n.1), "strictly increasing");
    }
}

[] fn c18_script_only() {
    assert!(T::SCRIPT_ONLY.len() == REF_SCRIPT_ONLY_K0.len());
    let i = k::usize();
    k::assume(i < REF_SCRIPT_ONLY_K0.len());
    let e = &T::SCRIPT_ONLY[i];
    cover!(i == 162);
    assert!(e.0 == REF_SCRIPT_ONLY_K0[i]);
    assert!(val_ok(&e.1, REF_SCRIPT_ONLY_VL[i], REF_SCRIPT_ONLY_VS[i], REF_SCRIPT_ONLY_VR[i]));
    assert!(script_ok(e.0));
    if i + 1 < T::SCRIPT_ONLY.len() {
        assert!(e.0 < T::SCRIPT_ONLY[i + 1].0, "strictly increasing");
    }
}

[] fn c18_region_only() {
    assert!(T::REGION_ONLY.len() == REF_REGION_ONLY_K0.len());
    let i = k::usize();
    k::assume(i < REF_REGION_ONLY_K0.len());
    let e = &T::REGION_ONLY[i];
    cover!(i == 257);
    assert!(e.0 == REF_REGION_ONLY_K0[i]);
    assert!(val_ok(&e.1, REF_REGION_ONLY_VL[i], REF_REGION_ONLY_VS[i], REF_REGION_ONLY_VR[i]));
    assert!(region_ok(e.0));
    if i + 1 < T::REGION_ONLY.len() {
        assert!(e.0 < T::REGION_ONLY[i + 1].0, "strictly increasing");
    }
}

// direction tables: equal *as sets* to the sets derived from the layout files (both inclusions,
// each by a symbolic index), same cardinality, no duplicates (strictly increasing)
[] fn c18_layout_tables() {
    assert!(L::SCRIPTS_CHARACTER_DIRECTION_LTR.len() == REF_SCRIPTS_LTR.len());
    assert!(L::SCRIPTS_CHARACTER_DIRECTION_RTL.len() == REF_SCRIPTS_RTL.len());
    assert!(L::SCRIPTS_CHARACTER_DIRECTION_TTB.len() == REF_SCRIPTS_TTB.len());
    assert!(L::LANGS_CHARACTER_DIRECTION_RTL.len() == REF_LANGS_RTL.len());
    let i = k::usize();
    if i < REF_SCRIPTS_LTR.len() {
        assert!(L::SCRIPTS_CHARACTER_DIRECTION_LTR.contains(&REF_SCRIPTS_LTR[i]), "every CLDR LTR script is in the table");
        assert!(REF_SCRIPTS_LTR.contains(&L::SCRIPTS_CHARACTER_DIRECTION_LTR[i]), "every table entry is a CLDR LTR script");
        assert!(script_ok(L::SCRIPTS_CHARACTER_DIRECTION_LTR[i]));
    }
    if i < REF_SCRIPTS_RTL.len() {
        assert!(L::SCRIPTS_CHARACTER_DIRECTION_RTL.contains(&REF_SCRIPTS_RTL[i]));
        assert!(REF_SCRIPTS_RTL.contains(&L::SCRIPTS_CHARACTER_DIRECTION_RTL[i]));
        assert!(script_ok(L::SCRIPTS_CHARACTER_DIRECTION_RTL[i]));
    }
    if i < REF_SCRIPTS_TTB.len() {
        assert!(L::SCRIPTS_CHARACTER_DIRECTION_TTB.contains(&REF_SCRIPTS_TTB[i]));
        assert!(REF_SCRIPTS_TTB.contains(&L::SCRIPTS_CHARACTER_DIRECTION_TTB[i]));
        assert!(script_ok(L::SCRIPTS_CHARACTER_DIRECTION_TTB[i]));
    }
    if i < REF_LANGS_RTL.len() {
        cover!(i == 28);
        assert!(L::LANGS_CHARACTER_DIRECTION_RTL.contains(&REF_LANGS_RTL[i]), "every CLDR RTL language is in the table");
        assert!(REF_LANGS_RTL.contains(&L::LANGS_CHARACTER_DIRECTION_RTL[i]), "every table entry is a CLDR RTL language");
        assert!(lang_ok(L::LANGS_CHARACTER_DIRECTION_RTL[i]));
    }
}

[] fn c18_cldr_version() {
    let a = unic_langid_impl::likelysubtags::CLDR_VERSION.as_bytes();
    let b = REF_CLDR_VERSION.as_bytes();
    cover!(a.len() == b.len());
    assert!(a.len() == b.len());
    let mut i = 0;
    while i < b.len() {
        assert!(a[i] == b[i], "advertised CLDR version equals the data's");
        i += 1;
    }
}

}
