//! C02 — LanguageIdentifier parsing accepts exactly the well-formed language identifiers.
use crate::h;
use crate::spec::{self, LangIdErr};
use crate::sym::{self, Tok};
use unic_langid_impl::parser::ParserError;
use unic_langid_impl::{LanguageIdentifier, LanguageIdentifierError};

/// K fully symbolic subtags through the real token-level entry vs the reference recogniser
fn exact<const K: usize>() {
    let toks: [Tok; K] = h::toks9();
    h::note_toks(&toks);
    let r = h::parse_tokens(&toks, false);
    let (want, _) = spec::parse_langid(&toks, K, false);
    cover!(r.is_ok());
    cover!(r.is_err());
    match (&r, &want) {
        (Ok(li), Ok(m)) => {
            cover!(m.nvariants + 1 + (m.script.is_some() as usize) + (m.region.is_some() as usize) == K);
            assert!(h::langid_is(li, m), "parsed value holds exactly the input's subtags in canonical form");
        }
        (Err(e), Err(w)) => {
            let want_e = match w {
                LangIdErr::InvalidLanguage => ParserError::InvalidLanguage,
                LangIdErr::InvalidSubtag => ParserError::InvalidSubtag,
            };
            assert!(*e == LanguageIdentifierError::ParserError(want_e), "error kind: InvalidLanguage iff first subtag is not a language");
        }
        (Ok(_), Err(_)) => assert!(false, "accepted an ill-formed language identifier"),
        (Err(_), Ok(_)) => assert!(false, "rejected a well-formed language identifier"),
    }
    if let Ok(li) = r {
        core::mem::forget(li);
    }
}

proofs! {

[push, sortv, boxed] fn c02_tokens_1() { exact::<1>() }
[push, sortv, boxed] fn c02_tokens_2() { exact::<2>() }
[push, sortv, boxed] fn c02_tokens_3() { exact::<3>() }
[push, sortv, boxed] fn c02_tokens_4() { exact::<4>() }

}
