//! C02 — LanguageIdentifier parsing accepts exactly the well-formed language identifiers.
use crate::h;
use crate::spec::{self, LangIdErr};
use crate::sym::{self, Tok};
use unic_langid_impl::parser::ParserError;
use unic_langid_impl::{LanguageIdentifier, LanguageIdentifierError};

/// K fully symbolic subtags through the real token-level entry vs the reference recogniser
fn exact<const K: usize>() {
    let toks: [Tok; K] = h::toks9();
    h::note_toks(&toks);
    let r = h::parse_tokens(&toks, false);
    let (want, _) = spec::parse_langid(&toks, K, false);
    cover!(r.is_ok());
    cover!(r.is_err());
    match (&r, &want) {
        (Ok(li), Ok(m)) => {
            cover!(m.nvariants + 1 + (m.script.is_some() as usize) + (m.region.is_some() as usize) == K);
            assert!(h::langid_is(li, m), "parsed value holds exactly the input's subtags in canonical form");
        }
        (Err(e), Err(w)) => {
            let want_e = match w {
                LangIdErr::InvalidLanguage => ParserError::InvalidLanguage,
                LangIdErr::InvalidSubtag => ParserError::InvalidSubtag,
            };
            assert!(*e == LanguageIdentifierError::ParserError(want_e), "error kind: InvalidLanguage iff first subtag is not a language");
        }
        (Ok(_), Err(_)) => assert!(false, "accepted an ill-formed language identifier"),
        (Err(_), Ok(_)) => assert!(false, "rejected a well-formed language identifier"),
    }
    if let Ok(li) = r {
        core::mem::forget(li);
    }
}

proofs! {

[push, sortv, boxed] fn c02_tokens_1() { exact::<1>() }
[push, sortv, boxed] fn c02_tokens_2() { exact::<2>() }
[push, sortv, boxed] fn c02_tokens_3() { exact::<3>() }
[push, sortv, boxed] fn c02_tokens_4() { exact::<4>() }

}

/// byte level: every byte string of length <= L through the real `from_bytes`, against
/// reference-split + reference recogniser (covers the separator predicate, empty subtags,
/// leading / trailing separators)
fn bytes_exact<const L: usize, const K: usize>() {
    let n = crate::k::usize();
    crate::k::assume(n <= L);
    bytes_exact_n::<L, K>(n)
}
/// `n` concrete: every byte string of exactly that length (one harness per length keeps the end of
/// the input, and with it the last subtag's end, out of the symbolic state)
fn bytes_exact_n<const L: usize, const K: usize>(n: usize) {
    let buf: [u8; L] = crate::k::bytes();
    check_bytes::<L, K>(buf, n)
}
/// separator frame: concrete subtags, every `?` position an arbitrary byte (all 256 values): decides
/// which bytes separate subtags, in the context of a full identifier (the token-level harnesses decide
/// the subtag contents)
pub fn sep_frame<const L: usize>(pat: &[u8; L]) -> [u8; L] {
    let mut buf = *pat;
    let mut i = 0;
    while i < L {
        if pat[i] == b'?' {
            buf[i] = crate::k::u8();
        }
        i += 1;
    }
    buf
}
fn check_bytes<const L: usize, const K: usize>(buf: [u8; L], n: usize) {
    #[cfg(not(kani))]
    eprintln!("INPUT bytes={:?} {:?}", String::from_utf8_lossy(&buf[..n]), &buf[..n]);
    let (toks, k) = spec::split_ref::<L, K>(&buf, n);
    let inf = spec::infos(&toks);
    let (want, _) = spec::parse_langid_info(&inf, 0, k, false);
    let r = LanguageIdentifier::from_bytes(&buf[..n]);
    cover!(r.is_ok() || L < 2);
    cover!(r.is_err());
    match (&r, &want) {
        (Ok(li), Ok(m)) => assert!(h::langid_is(li, m), "from_bytes: parsed value equals the reference canonical form"),
        (Err(e), Err(w)) => {
            let want_e = match w {
                LangIdErr::InvalidLanguage => ParserError::InvalidLanguage,
                LangIdErr::InvalidSubtag => ParserError::InvalidSubtag,
            };
            assert!(*e == LanguageIdentifierError::ParserError(want_e), "from_bytes: error kind");
        }
        (Ok(_), Err(_)) => assert!(false, "from_bytes accepted an ill-formed language identifier"),
        (Err(_), Ok(_)) => assert!(false, "from_bytes rejected a well-formed language identifier"),
    }
    core::mem::forget(r);
}

pub mod bytes {
    use super::*;
    proofs! {
    [push, sortv, boxed] fn c02_bytes_len0() { bytes_exact_n::<1, 2>(0) }
    [push, sortv, boxed] fn c02_bytes_len1() { bytes_exact_n::<1, 2>(1) }
    [push, sortv, boxed] fn c02_bytes_len2() { bytes_exact_n::<2, 3>(2) }
    [push, sortv, boxed] fn c02_bytes_len3() { bytes_exact_n::<3, 4>(3) }
    [push, sortv, boxed] fn c02_bytes_len4() { bytes_exact_n::<4, 5>(4) }
    [push, sortv, boxed] fn c02_bytes_3() { bytes_exact::<3, 4>() }
    [push, sortv, boxed] fn c02_sep_en_us() { check_bytes::<5, 6>(sep_frame(b"en?US"), 5) }
    [push, sortv, boxed] fn c02_sep_en_latn_us_macos() { check_bytes::<16, 17>(sep_frame(b"en?Latn?US?macos"), 16) }
    [push, sortv, boxed] fn c02_bytes_4() { bytes_exact::<4, 5>() }
    }
}
