//! Glue between the real API and the reference model: feed symbolic tokens to the
//! real token-level entry points, compare real values with model values.
use crate::spec::{self, LangIdModel, Txt};
use crate::sym::Tok;
use unic_langid_impl::subtags::{Language, Region, Script, Variant};
use unic_langid_impl::{LanguageIdentifier, LanguageIdentifierError};

/// the real shared parser entry (`#[doc(hidden)] pub`) on K pre-split subtags
pub fn parse_tokens<const K: usize>(toks: &[Tok; K], allow_ext: bool) -> Result<LanguageIdentifier, LanguageIdentifierError> {
    let arr: [&[u8]; K] = core::array::from_fn(|i| toks[i].bytes());
    let mut it = arr.into_iter().peekable();
    LanguageIdentifier::try_from_iter(&mut it, allow_ext)
}

/// as `parse_tokens`, also reporting how many tokens were left unconsumed
pub fn parse_tokens_rest<const K: usize>(toks: &[Tok; K], allow_ext: bool) -> (Result<LanguageIdentifier, LanguageIdentifierError>, usize) {
    let arr: [&[u8]; K] = core::array::from_fn(|i| toks[i].bytes());
    let mut it = arr.into_iter().peekable();
    let r = LanguageIdentifier::try_from_iter(&mut it, allow_ext);
    let mut left = 0;
    while it.next().is_some() {
        left += 1;
    }
    (r, left)
}

pub fn opt_txt_eq(got: Option<&str>, want: &Option<Txt>) -> bool {
    match (got, want) {
        (None, None) => true,
        (Some(g), Some(w)) => spec::same_text(g.as_bytes(), w),
        _ => false,
    }
}

/// every observable of the value equals the model (language text, `und` <=> empty,
/// script, region, the variants() sequence in order)
pub fn langid_is(li: &LanguageIdentifier, m: &LangIdModel) -> bool {
    if !spec::same_text(li.language.as_str().as_bytes(), &m.lang) {
        return false;
    }
    if li.language.is_empty() != m.lang_und {
        return false;
    }
    if !opt_txt_eq(li.script.as_ref().map(|s| s.as_str()), &m.script) {
        return false;
    }
    if !opt_txt_eq(li.region.as_ref().map(|s| s.as_str()), &m.region) {
        return false;
    }
    let mut it = li.variants();
    if it.len() != m.nvariants {
        return false;
    }
    let mut i = 0;
    while i < m.nvariants {
        match it.next() {
            Some(v) => {
                if !spec::same_text(v.as_str().as_bytes(), &m.variants[i]) {
                    return false;
                }
            }
            None => return false,
        }
        i += 1;
    }
    it.next().is_none()
}

#[cfg(not(kani))]
pub fn note_toks<const K: usize>(toks: &[Tok; K]) {
    let s: Vec<String> = toks.iter().map(|t| String::from_utf8_lossy(t.bytes()).into_owned()).collect();
    eprintln!("INPUT tokens={:?} raw={:?}", s, toks.iter().map(|t| t.bytes().to_vec()).collect::<Vec<_>>());
}
#[cfg(kani)]
pub fn note_toks<const K: usize>(_toks: &[Tok; K]) {}

pub fn toks9<const K: usize>() -> [Tok; K] {
    core::array::from_fn(|_| crate::sym::tok9())
}

use unic_locale_impl::extensions::{ExtensionsMap, PrivateExtensionList, TransformExtensionList, UnicodeExtensionList};
use unic_locale_impl::parser::ParserError as LocParserError;
use unic_locale_impl::Locale;

/// token-level twin of `unic_locale_impl::parser::parse_locale`: the same two calls in the
/// same order on pre-split subtags (the real `pub(crate)` extension parser is reached
/// through the cfg-guarded forwarding hook).  The three-line glue of `parse_locale`
/// itself is covered by the byte-level harnesses.
pub fn parse_locale_tokens<const K: usize>(toks: &[Tok; K]) -> Result<Locale, LocParserError> {
    let arr: [&[u8]; K] = core::array::from_fn(|i| toks[i].bytes());
    let mut it = arr.into_iter().peekable();
    let id = LanguageIdentifier::try_from_iter(&mut it, true).map_err(|_| LocParserError::InvalidLanguage)?;
    let extensions = ExtensionsMap::verif_try_from_iter(&mut it)?;
    Ok(Locale { id, extensions })
}

pub fn parse_extmap_tokens<const K: usize>(toks: &[Tok; K]) -> Result<ExtensionsMap, LocParserError> {
    let arr: [&[u8]; K] = core::array::from_fn(|i| toks[i].bytes());
    let mut it = arr.into_iter().peekable();
    ExtensionsMap::verif_try_from_iter(&mut it)
}
