//! Glue between the real API and the reference model: feed symbolic tokens to the
//! real token-level entry points, compare real values with model values.
use crate::spec::{self, LangIdModel, Txt};
use crate::sym::Tok;
use unic_langid_impl::subtags::{Language, Region, Script, Variant};
use unic_langid_impl::{LanguageIdentifier, LanguageIdentifierError};

/// the real shared parser entry (`#[doc(hidden)] pub`) on K pre-split subtags
pub fn parse_tokens<const K: usize>(toks: &[Tok; K], allow_ext: bool) -> Result<LanguageIdentifier, LanguageIdentifierError> {
    let arr = slices(toks);
    let mut it = arr.iter().copied().peekable();
    LanguageIdentifier::try_from_iter(&mut it, allow_ext)
}

/// as `parse_tokens`, also reporting how many tokens were left unconsumed
pub fn parse_tokens_rest<const K: usize>(toks: &[Tok; K], allow_ext: bool) -> (Result<LanguageIdentifier, LanguageIdentifierError>, usize) {
    let arr = slices(toks);
    let mut it = arr.iter().copied().peekable();
    let r = LanguageIdentifier::try_from_iter(&mut it, allow_ext);
    let mut left = 0;
    while it.next().is_some() {
        left += 1;
    }
    (r, left)
}

pub fn opt_txt_eq(got: Option<&str>, want: &Option<Txt>) -> bool {
    match (got, want) {
        (None, None) => true,
        (Some(g), Some(w)) => spec::same_text(g.as_bytes(), w),
        _ => false,
    }
}

/// every observable of the value equals the model (language text, `und` <=> empty,
/// script, region, the variants() sequence in order)
pub fn langid_is(li: &LanguageIdentifier, m: &LangIdModel) -> bool {
    if !spec::same_text(li.language.as_str().as_bytes(), &m.lang) {
        return false;
    }
    if li.language.is_empty() != m.lang_und {
        return false;
    }
    if !opt_txt_eq(li.script.as_ref().map(|s| s.as_str()), &m.script) {
        return false;
    }
    if !opt_txt_eq(li.region.as_ref().map(|s| s.as_str()), &m.region) {
        return false;
    }
    let mut it = li.variants();
    if it.len() != m.nvariants {
        return false;
    }
    let mut i = 0;
    while i < m.nvariants {
        match it.next() {
            Some(v) => {
                if !spec::same_text(v.as_str().as_bytes(), &m.variants[i]) {
                    return false;
                }
            }
            None => return false,
        }
        i += 1;
    }
    it.next().is_none()
}

#[cfg(not(kani))]
pub fn note_toks<const K: usize>(toks: &[Tok; K]) {
    let s: Vec<String> = toks.iter().map(|t| String::from_utf8_lossy(t.bytes()).into_owned()).collect();
    eprintln!("INPUT tokens={:?} raw={:?}", s, toks.iter().map(|t| t.bytes().to_vec()).collect::<Vec<_>>());
}
#[cfg(kani)]
pub fn note_toks<const K: usize>(_toks: &[Tok; K]) {}

pub fn toks9<const K: usize>() -> [Tok; K] {
    let mut a = [Tok::lit(b""); K];
    let mut i = 0;
    while i < K {
        a[i] = crate::sym::tok9();
        i += 1;
    }
    a
}

/// the subtags as slices.  Plain array assignment on purpose: `core::array::from_fn` and
/// `array::IntoIter` go through `MaybeUninit`, behind which CBMC no longer sees the (concrete)
/// slice lengths of length-profiled frames, so every length test in the parsers turned symbolic.
pub fn slices<const K: usize>(toks: &[Tok; K]) -> [&[u8]; K] {
    let mut arr: [&[u8]; K] = [&[]; K];
    let mut i = 0;
    while i < K {
        arr[i] = toks[i].bytes();
        i += 1;
    }
    arr
}

use unic_locale_impl::extensions::{ExtensionsMap, PrivateExtensionList, TransformExtensionList, UnicodeExtensionList};
use unic_locale_impl::parser::ParserError as LocParserError;
use unic_locale_impl::Locale;

/// token-level twin of `unic_locale_impl::parser::parse_locale`: the same two calls in the
/// same order on pre-split subtags (the real `pub(crate)` extension parser is reached
/// through the cfg-guarded forwarding hook).  The three-line glue of `parse_locale`
/// itself is covered by the byte-level harnesses.
pub fn parse_locale_tokens<const K: usize>(toks: &[Tok; K]) -> Result<Locale, LocParserError> {
    let arr = slices(toks);
    let mut it = arr.iter().copied().peekable();
    let id = LanguageIdentifier::try_from_iter(&mut it, true).map_err(|_| LocParserError::InvalidLanguage)?;
    let extensions = ExtensionsMap::verif_try_from_iter(&mut it)?;
    Ok(Locale { id, extensions })
}

pub fn parse_extmap_tokens<const K: usize>(toks: &[Tok; K]) -> Result<ExtensionsMap, LocParserError> {
    let arr = slices(toks);
    let mut it = arr.iter().copied().peekable();
    ExtensionsMap::verif_try_from_iter(&mut it)
}

pub fn parse_ulist_tokens<const K: usize>(toks: &[Tok; K]) -> (Result<UnicodeExtensionList, LocParserError>, usize) {
    let arr = slices(toks);
    let mut it = arr.iter().copied().peekable();
    let r = UnicodeExtensionList::verif_try_from_iter(&mut it);
    let mut left = 0;
    while it.next().is_some() {
        left += 1;
    }
    (r, left)
}
pub fn parse_tlist_tokens<const K: usize>(toks: &[Tok; K]) -> (Result<TransformExtensionList, LocParserError>, usize) {
    let arr = slices(toks);
    let mut it = arr.iter().copied().peekable();
    let r = TransformExtensionList::verif_try_from_iter(&mut it);
    let mut left = 0;
    while it.next().is_some() {
        left += 1;
    }
    (r, left)
}
pub fn parse_plist_tokens<const K: usize>(toks: &[Tok; K]) -> Result<PrivateExtensionList, LocParserError> {
    let arr = slices(toks);
    let mut it = arr.iter().copied();
    PrivateExtensionList::verif_try_from_iter(&mut it)
}

// ---- real extension values vs reference models -------------------------------------------
use crate::xspec::{KV, PModel, TModel, UModel};

fn iter_is<'a>(mut it: impl ExactSizeIterator<Item = &'a str>, want: &[Txt], n: usize) -> bool {
    if it.len() != n {
        return false;
    }
    let mut i = 0;
    while i < want.len() {
        if i < n {
            match it.next() {
                Some(s) => {
                    if !spec::same_text(s.as_bytes(), &want[i]) {
                        return false;
                    }
                }
                None => return false,
            }
        }
        i += 1;
    }
    // (ExactSizeIterator::len() == n was checked above; not calling next() again keeps the
    // exhausted-iterator path of the B-tree navigation out of the query)
    true
}

pub fn ulist_is(u: &UnicodeExtensionList, m: &UModel) -> bool {
    ulist_is_opt(u, m, true)
}
/// without walking `keyword_keys()`: the number of keys (`len()`, O(1)) plus a successful `keyword(k)`
/// lookup for each of the model's distinct keys pins the key set; the *order* in which the map yields
/// its keys is checked where it is observable (C10 getters, C04 Display).  Saves the B-tree
/// navigation code in the parser frames.
pub fn ulist_is_lite(u: &UnicodeExtensionList, m: &UModel) -> bool {
    ulist_is_opt(u, m, false)
}
fn ulist_is_opt(u: &UnicodeExtensionList, m: &UModel, walk: bool) -> bool {
    if !iter_is(u.attributes(), &m.attrs, m.nattrs) {
        return false;
    }
    if m.kw.nkeys == 0 || !walk {
        if u.keyword_keys().len() != m.kw.nkeys {
            return false;
        }
    } else if !iter_is(u.keyword_keys(), &m.kw.keys, m.kw.nkeys) {
        return false;
    }
    let mut i = 0;
    while i < crate::xspec::KMAX {
        if i < m.kw.nkeys {
            match u.keyword(&m.kw.keys[i][..2]) {
                Ok(it) => {
                    if !iter_is(it, &m.kw.vals[i], m.kw.nvals[i]) {
                        return false;
                    }
                }
                Err(_) => return false,
            }
        }
        i += 1;
    }
    u.is_empty() == (m.nattrs == 0 && m.kw.nkeys == 0)
}

pub fn tlist_is(t: &TransformExtensionList, m: &TModel) -> bool {
    tlist_is_opt(t, m, true)
}
pub fn tlist_is_lite(t: &TransformExtensionList, m: &TModel) -> bool {
    tlist_is_opt(t, m, false)
}
fn tlist_is_opt(t: &TransformExtensionList, m: &TModel, walk: bool) -> bool {
    match (t.tlang(), &m.tlang) {
        (None, None) => {}
        (Some(l), Some(ml)) => {
            if !langid_is(l, ml) {
                return false;
            }
        }
        _ => return false,
    }
    if m.fields.nkeys == 0 || !walk {
        if t.tfield_keys().len() != m.fields.nkeys {
            return false;
        }
    } else if !iter_is(t.tfield_keys(), &m.fields.keys, m.fields.nkeys) {
        return false;
    }
    let mut i = 0;
    while i < crate::xspec::KMAX {
        if i < m.fields.nkeys {
            match t.tfield(&m.fields.keys[i][..2]) {
                Ok(it) => {
                    if !iter_is(it, &m.fields.vals[i], m.fields.nvals[i]) {
                        return false;
                    }
                }
                Err(_) => return false,
            }
        }
        i += 1;
    }
    t.is_empty() == (m.tlang.is_none() && m.fields.nkeys == 0)
}

pub fn plist_is(p: &PrivateExtensionList, m: &PModel) -> bool {
    iter_is(p.tags(), &m.tags, m.ntags) && p.is_empty() == (m.ntags == 0)
}

pub fn toks_len<const K: usize>(lens: [usize; K]) -> [Tok; K] {
    let mut a = [Tok::lit(b""); K];
    let mut i = 0;
    while i < K {
        a[i] = crate::sym::tok_len(lens[i]);
        i += 1;
    }
    a
}
