//! C10 — mutator and getter histories behave like a plain set/map model.
//! Private state cannot be made symbolic directly, so a pre-state is produced by h symbolic
//! operations (operation chosen by a symbolic selector, argument a fully symbolic subtag, so
//! valid, boundary and invalid arguments are all covered) and every step is compared with the
//! reference model: Result of the call, "Err => nothing changed", every getter afterwards.
use crate::h;
use crate::k;
use crate::spec::{self, Txt, NOTXT, VMAX};
use crate::sym::{self, Tok};
use crate::xspec::{self, PModel, UModel};
use unic_langid_impl::subtags::Variant;
use unic_langid_impl::LanguageIdentifier;
use unic_locale_impl::extensions::{PrivateExtensionList, TransformExtensionList, UnicodeExtensionList};

// ---- reference set / multiset on sorted fixed arrays ----
fn set_contains(a: &[Txt; VMAX], n: usize, v: &Txt) -> bool {
    let mut i = 0;
    while i < VMAX {
        if i < n && spec::txt_eq(&a[i], v) {
            return true;
        }
        i += 1;
    }
    false
}
/// removes one occurrence; true if something was removed
fn set_remove(a: &mut [Txt; VMAX], n: &mut usize, v: &Txt) -> bool {
    let mut i = 0;
    let mut at = VMAX;
    while i < VMAX {
        if at == VMAX && i < *n && spec::txt_eq(&a[i], v) {
            at = i;
        }
        i += 1;
    }
    if at == VMAX {
        return false;
    }
    let mut j = 0;
    while j + 1 < VMAX {
        if j >= at {
            a[j] = a[j + 1];
        }
        j += 1;
    }
    *n -= 1;
    true
}

/// one symbolic operation on the attribute set, checked against the model
fn attr_step(u: &mut UnicodeExtensionList, m: &mut UModel) {
    let op = k::u8();
    k::assume(op < 4);
    let t = sym::tok9();
    sym::note("arg", &t);
    sym::note_val("op", &op);
    let inf = spec::info(&t);
    let valid = inf.is_utype();
    let low = inf.lower();
    let before = *m;
    match op {
        0 => {
            let r = u.set_attribute(t.bytes());
            assert!(r.is_ok() == valid, "set_attribute accepts exactly alphanum{{3,8}}");
            if valid {
                k::assume(m.nattrs < VMAX || set_contains(&m.attrs, m.nattrs, &low));
                spec::insert_sorted_unique(&mut m.attrs, &mut m.nattrs, low);
            }
        }
        1 => {
            let r = u.remove_attribute(t.bytes());
            match r {
                Ok(b) => {
                    assert!(valid);
                    assert!(b == set_remove(&mut m.attrs, &mut m.nattrs, &low), "remove_attribute reports whether the attribute was present");
                }
                Err(_) => assert!(!valid, "remove_attribute rejects only malformed attributes"),
            }
        }
        2 => {
            let r = u.has_attribute(t.bytes());
            match r {
                Ok(b) => {
                    assert!(valid);
                    assert!(b == set_contains(&m.attrs, m.nattrs, &low), "has_attribute == membership in the set (normalised)");
                }
                Err(_) => assert!(!valid),
            }
        }
        _ => {
            u.clear_attributes();
            m.nattrs = 0;
        }
    }
    if !valid && op < 3 {
        assert!(m.nattrs == before.nattrs);
    }
    // every getter after every step
    assert!(h::ulist_is(u, m), "attributes(): sorted, unique, exactly the model; keywords untouched; is_empty consistent");
}

fn tag_step(p: &mut PrivateExtensionList, m: &mut PModel) {
    let op = k::u8();
    k::assume(op < 4);
    let t = sym::tok9();
    sym::note("arg", &t);
    sym::note_val("op", &op);
    let inf = spec::info(&t);
    let valid = inf.is_private();
    let low = inf.lower();
    match op {
        0 => {
            let r = p.add_tag(t.bytes());
            assert!(r.is_ok() == valid, "add_tag accepts exactly alphanum{{1,8}}");
            if valid {
                k::assume(m.ntags < VMAX);
                xspec::insert_sorted_multi(&mut m.tags, &mut m.ntags, low);
            }
        }
        1 => {
            let r = p.remove_tag(t.bytes());
            match r {
                Ok(b) => {
                    assert!(valid);
                    assert!(b == set_remove(&mut m.tags, &mut m.ntags, &low), "remove_tag removes one occurrence and reports it");
                }
                Err(_) => assert!(!valid),
            }
        }
        2 => {
            let r = p.has_tag(t.bytes());
            match r {
                Ok(b) => {
                    assert!(valid);
                    assert!(b == set_contains(&m.tags, m.ntags, &low));
                }
                Err(_) => assert!(!valid),
            }
        }
        _ => {
            p.clear_tags();
            m.ntags = 0;
        }
    }
    assert!(h::plist_is(p, m), "tags(): sorted multiset, exactly the model; is_empty consistent");
}


// ---- one inductive step from an ARBITRARY pre-state (DESIGN 4, C10) -------------------------
// Histories from `default()` only reach states of at most H elements.  Here the pre-state is any
// vector that satisfies the representation invariant the code relies on (built through the
// cfg-guarded raw constructor): 0..=3 well-formed, normalised elements, strictly increasing
// (attributes) / non-decreasing (private tags).  One symbolic operation follows and the post-state
// is compared with the model through the getters - which also re-establishes the invariant, so the
// step covers histories of any length whose states hold at most 3 elements.
use tinystr::TinyAsciiStr;

fn txt_tiny(t: &Txt) -> TinyAsciiStr<8> {
    let n = spec::txt_len(t);
    match TinyAsciiStr::<8>::from_bytes(&t[..n]) {
        Ok(x) => x,
        Err(_) => {
            k::assume(false);
            unreachable!()
        }
    }
}

/// `strict`: strictly increasing (set) vs non-decreasing (multiset)
fn any_sorted_state(lo: usize, strict: bool) -> (Vec<TinyAsciiStr<8>>, [Txt; VMAX], usize) {
    let n = k::u8() as usize;
    k::assume(n <= 3);
    let mut v: Vec<TinyAsciiStr<8>> = Vec::with_capacity(crate::spec::VMAX);
    let mut a = [NOTXT; VMAX];
    let mut i = 0;
    while i < 3 {
        if i < n {
            let t = sym::tok_range(lo, 8);
            sym::note("state", &t);
            let inf = spec::info(&t);
            k::assume(if lo == 1 { inf.is_private() } else { inf.is_utype() });
            let low = inf.lower();
            if i > 0 {
                let c = spec::txt_cmp(&a[i - 1], &low);
                k::assume(if strict { c < 0 } else { c <= 0 });
            }
            a[i] = low;
            v.push(txt_tiny(&low));
        }
        i += 1;
    }
    (v, a, n)
}

fn attr_inductive() {
    let (v, a, n) = any_sorted_state(3, true);
    let mut u = UnicodeExtensionList::verif_with_attributes(v);
    let mut m = UModel { attrs: a, nattrs: n, kw: xspec::KV::new() };
    cover!(n == 3);
    assert!(h::ulist_is(&u, &m), "pre-state: getters show exactly the raw vector");
    attr_step(&mut u, &mut m);
    cover!(m.nattrs == 2 && n == 3);
    cover!(m.nattrs == 4);
    core::mem::forget(u);
}
fn tag_inductive() {
    let (v, a, n) = any_sorted_state(1, false);
    let mut p = PrivateExtensionList::verif_from_tags(v);
    let mut m = PModel { tags: a, ntags: n };
    cover!(n == 3);
    assert!(h::plist_is(&p, &m), "pre-state: getters show exactly the raw vector");
    tag_step(&mut p, &mut m);
    cover!(m.ntags == 2 && n == 3);
    core::mem::forget(p);
}

fn attr_history<const H: usize>() {
    let mut u = UnicodeExtensionList::default();
    let mut m = UModel { attrs: [NOTXT; VMAX], nattrs: 0, kw: xspec::KV::new() };
    let mut i = 0;
    while i < H {
        attr_step(&mut u, &mut m);
        i += 1;
    }
    cover!(m.nattrs == 2);
    core::mem::forget(u);
}
fn tag_history<const H: usize>() {
    let mut p = PrivateExtensionList::default();
    let mut m = PModel { tags: [NOTXT; VMAX], ntags: 0 };
    let mut i = 0;
    while i < H {
        tag_step(&mut p, &mut m);
        i += 1;
    }
    cover!(m.ntags == 2);
    core::mem::forget(p);
}

/// variants: set_variants with NV symbolic variants (any order, duplicates) on any identifier,
/// then has_variant / clear_variants
fn variants_ops<const NV: usize>() {
    let (mut li, mut m) = sym::any_langid(2);
    let mut vs = [Variant::from_bytes(b"aaaaa").unwrap(); NV];
    let mut nm = [NOTXT; VMAX];
    let mut nn = 0usize;
    let mut i = 0;
    while i < NV {
        let (v, vt) = sym::any_variant();
        vs[i] = v;
        spec::insert_sorted_unique(&mut nm, &mut nn, vt);
        i += 1;
    }
    li.set_variants(&vs);
    m.variants = nm;
    m.nvariants = nn;
    cover!(nn == NV);
    assert!(h::langid_is(&li, &m), "set_variants: sorted, unique, replaces the old list; language/script/region untouched");
    let (q, qt) = sym::any_variant();
    assert!(li.has_variant(q) == set_contains(&m.variants, m.nvariants, &qt), "has_variant == membership");
    if k::bool() {
        li.clear_variants();
        m.nvariants = 0;
        assert!(h::langid_is(&li, &m));
        assert!(li == LanguageIdentifier::from_parts(li.language, li.script, li.region, &[]), "cleared == never had variants (single representation)");
    }
    core::mem::forget(li);
}


// ---- keywords (-u-) and tfields (-t-): ordered maps key -> value list ----
use crate::xspec::{KV, KMAX, TYMAX};

/// model of `set_*(key, values)`: all arguments validated first (error => no change), `true` dropped
pub fn kv_set(kv: &mut KV, key_ok: bool, key: Txt, vals: &[(bool, Txt); 2], nv: usize) -> bool {
    if !key_ok {
        return false;
    }
    let mut i = 0;
    while i < 2 {
        if i < nv && !vals[i].0 {
            return false;
        }
        i += 1;
    }
    let at = kv.start_key(key);
    k::assume(at < KMAX);
    let mut i = 0;
    while i < 2 {
        if i < nv {
            let _ = kv.add_val(kv.slot_of(&key), vals[i].1);
        }
        i += 1;
    }
    true
}
fn kv_remove(kv: &mut KV, key: &Txt) -> bool {
    let at = kv.slot_of(key);
    if at >= KMAX {
        return false;
    }
    // KMAX == 2
    if at == 0 {
        kv.keys[0] = kv.keys[1];
        kv.vals[0] = kv.vals[1];
        kv.nvals[0] = kv.nvals[1];
    }
    kv.nkeys -= 1;
    true
}
fn kv_vals_are<'a>(it: impl ExactSizeIterator<Item = &'a str>, kv: &KV, key: &Txt) -> bool {
    let at = kv.slot_of(key);
    if at >= KMAX {
        return it.len() == 0;
    }
    let mut it = it;
    if it.len() != kv.nvals[at] {
        return false;
    }
    let mut i = 0;
    while i < TYMAX {
        if i < kv.nvals[at] {
            match it.next() {
                Some(s) => {
                    if !spec::same_text(s.as_bytes(), &kv.vals[at][i]) {
                        return false;
                    }
                }
                None => return false,
            }
        }
        i += 1;
    }
    true
}

/// one symbolic keyword operation: set (0..=2 values) / remove / get / clear, key and values fully symbolic
fn kw_step(u: &mut UnicodeExtensionList, m: &mut UModel) {
    let op = k::u8();
    k::assume(op < 4);
    let key = sym::tok9();
    sym::note("key", &key);
    sym::note_val("op", &op);
    let ki = spec::info(&key);
    let key_ok = ki.is_ukey();
    let klow = ki.lower();
    let before = *m;
    match op {
        0 => {
            let nv = k::u8() as usize;
            k::assume(nv <= 2);
            let v0 = sym::tok9();
            let v1 = sym::tok9();
            sym::note("v0", &v0);
            sym::note("v1", &v1);
            sym::note_val("nv", &nv);
            let (i0, i1) = (spec::info(&v0), spec::info(&v1));
            let vals = [(i0.is_utype(), i0.lower()), (i1.is_utype(), i1.lower())];
            let arr: [&[u8]; 2] = [v0.bytes(), v1.bytes()];
            let r = u.set_keyword(key.bytes(), &arr[..nv]);
            let want = kv_set(&mut m.kw, key_ok, klow, &vals, nv);
            assert!(r.is_ok() == want, "set_keyword succeeds iff key is alphanum alpha and every value alphanum{{3,8}}");
        }
        1 => {
            let r = u.remove_keyword(key.bytes());
            match r {
                Ok(b) => {
                    assert!(key_ok);
                    assert!(b == kv_remove(&mut m.kw, &klow), "remove_keyword reports whether the key was present");
                }
                Err(_) => assert!(!key_ok),
            }
        }
        2 => {
            let r = u.keyword(key.bytes());
            match r {
                Ok(it) => {
                    assert!(key_ok);
                    assert!(kv_vals_are(it, &m.kw, &klow), "keyword(k) yields the stored types, or nothing for an absent key");
                }
                Err(_) => assert!(!key_ok, "keyword() rejects only malformed keys"),
            };
        }
        _ => {
            u.clear_keywords();
            m.kw.nkeys = 0;
        }
    }
    if !key_ok && op < 3 {
        assert!(m.kw.nkeys == before.kw.nkeys);
    }
    assert!(h::ulist_is(u, m), "keyword_keys() sorted, keyword(k) for every key, attributes untouched, is_empty consistent");
}

fn tf_step(t: &mut TransformExtensionList, m: &mut xspec::TModel) {
    let op = k::u8();
    k::assume(op < 4);
    let key = sym::tok9();
    sym::note("key", &key);
    sym::note_val("op", &op);
    let ki = spec::info(&key);
    let key_ok = ki.is_tkey();
    let klow = ki.lower();
    match op {
        0 => {
            let nv = k::u8() as usize;
            k::assume(nv <= 2);
            let v0 = sym::tok9();
            let v1 = sym::tok9();
            sym::note("v0", &v0);
            sym::note("v1", &v1);
            sym::note_val("nv", &nv);
            let (i0, i1) = (spec::info(&v0), spec::info(&v1));
            let vals = [(i0.is_utype(), i0.lower()), (i1.is_utype(), i1.lower())];
            let arr: [&[u8]; 2] = [v0.bytes(), v1.bytes()];
            let r = t.set_tfield(key.bytes(), &arr[..nv]);
            let want = kv_set(&mut m.fields, key_ok, klow, &vals, nv);
            assert!(r.is_ok() == want, "set_tfield succeeds iff key is alpha digit and every value alphanum{{3,8}}");
        }
        1 => {
            let r = t.remove_tfield(key.bytes());
            match r {
                Ok(b) => {
                    assert!(key_ok);
                    assert!(b == kv_remove(&mut m.fields, &klow), "remove_tfield reports whether the key was present");
                }
                Err(_) => assert!(!key_ok),
            }
        }
        2 => {
            let r = t.tfield(key.bytes());
            match r {
                Ok(it) => {
                    assert!(key_ok);
                    assert!(kv_vals_are(it, &m.fields, &klow), "tfield(k) yields the stored values, or nothing for an absent key");
                }
                Err(_) => assert!(!key_ok, "tfield() rejects only malformed keys"),
            };
        }
        _ => {
            t.clear_tfields();
            m.fields.nkeys = 0;
        }
    }
    assert!(h::tlist_is(t, m), "tfield_keys() sorted, tfield(k) for every key, tlang untouched, is_empty consistent");
}

fn kw_history<const H: usize>() {
    let mut u = UnicodeExtensionList::default();
    let mut m = UModel { attrs: [NOTXT; VMAX], nattrs: 0, kw: KV::new() };
    let mut i = 0;
    while i < H {
        kw_step(&mut u, &mut m);
        i += 1;
    }
    cover!(m.kw.nkeys == 1 && m.kw.nvals[0] == 2);
    core::mem::forget(u);
}
fn tf_history<const H: usize>() {
    let mut t = TransformExtensionList::default();
    let mut m = xspec::TModel { tlang: None, fields: KV::new() };
    let mut i = 0;
    while i < H {
        tf_step(&mut t, &mut m);
        i += 1;
    }
    cover!(m.fields.nkeys == 1 && m.fields.nvals[0] == 2);
    core::mem::forget(t);
}

/// tlang: set / clear with any identifier (<= 1 variant); tfields untouched
fn tlang_ops() {
    let mut t = TransformExtensionList::default();
    let mut m = xspec::TModel { tlang: None, fields: KV::new() };
    let (li, lm) = sym::any_langid(1);
    assert!(t.is_empty());
    let r = t.set_tlang(li);
    assert!(r.is_ok());
    m.tlang = Some(lm);
    assert!(h::tlist_is(&t, &m), "tlang() returns the identifier that was set");
    if k::bool() {
        let (li2, lm2) = sym::any_langid(0);
        assert!(t.set_tlang(li2).is_ok());
        m.tlang = Some(lm2);
        assert!(h::tlist_is(&t, &m), "set_tlang replaces");
    }
    if k::bool() {
        t.clear_tlang();
        m.tlang = None;
        assert!(h::tlist_is(&t, &m) && t.is_empty(), "clear_tlang: none, extension empty again");
        assert!(t == TransformExtensionList::default(), "cleared == never set (single representation)");
    }
    cover!(t.tlang().is_none());
    core::mem::forget(t);
}

proofs! {

[insrem, sortt] fn c10_attr_history_2() { attr_history::<2>() }
[insrem, sortt] fn c10_attr_history_3() { attr_history::<3>() }
[push, insrem, sortt] fn c10_attr_inductive() { attr_inductive() }
[push, insrem, sortt] fn c10_tag_inductive() { tag_inductive() }
[push, insrem, sortt] fn c10_tag_history_2() { tag_history::<2>() }
[push, insrem, sortt] fn c10_tag_history_3() { tag_history::<3>() }
[push, sortt] fn c10_kw_history_1() { kw_history::<1>() }
[push, sortt] fn c10_kw_history_2() { kw_history::<2>() }
[push, sortt, sortv, boxed] fn c10_tf_history_1() { tf_history::<1>() }
[push, sortt, sortv, boxed] fn c10_tf_history_2() { tf_history::<2>() }
[] fn c10_tlang_ops() { tlang_ops() }
[sortv, boxed, tovec] fn c10_variants_0() { variants_ops::<0>() }
[sortv, boxed, tovec] fn c10_variants_2() { variants_ops::<2>() }
[sortv, boxed, tovec] fn c10_variants_3() { variants_ops::<3>() }

}
