//! C10 — mutator and getter histories behave like a plain set/map model.
//! Private state cannot be made symbolic directly, so a pre-state is produced by h symbolic
//! operations (operation chosen by a symbolic selector, argument a fully symbolic subtag, so
//! valid, boundary and invalid arguments are all covered) and every step is compared with the
//! reference model: Result of the call, "Err => nothing changed", every getter afterwards.
use crate::h;
use crate::k;
use crate::spec::{self, Txt, NOTXT, VMAX};
use crate::sym::{self, Tok};
use crate::xspec::{self, PModel, UModel};
use unic_langid_impl::subtags::Variant;
use unic_langid_impl::LanguageIdentifier;
use unic_locale_impl::extensions::{PrivateExtensionList, TransformExtensionList, UnicodeExtensionList};

// ---- reference set / multiset on sorted fixed arrays ----
fn set_contains(a: &[Txt; VMAX], n: usize, v: &Txt) -> bool {
    let mut i = 0;
    while i < VMAX {
        if i < n && spec::txt_eq(&a[i], v) {
            return true;
        }
        i += 1;
    }
    false
}
/// removes one occurrence; true if something was removed
fn set_remove(a: &mut [Txt; VMAX], n: &mut usize, v: &Txt) -> bool {
    let mut i = 0;
    let mut at = VMAX;
    while i < VMAX {
        if at == VMAX && i < *n && spec::txt_eq(&a[i], v) {
            at = i;
        }
        i += 1;
    }
    if at == VMAX {
        return false;
    }
    let mut j = 0;
    while j + 1 < VMAX {
        if j >= at {
            a[j] = a[j + 1];
        }
        j += 1;
    }
    *n -= 1;
    true
}

/// one symbolic operation on the attribute set, checked against the model
fn attr_step(u: &mut UnicodeExtensionList, m: &mut UModel) {
    let op = k::u8();
    k::assume(op < 4);
    let t = sym::tok9();
    sym::note("arg", &t);
    sym::note_val("op", &op);
    let inf = spec::info(&t);
    let valid = inf.is_utype();
    let low = inf.lower();
    let before = *m;
    match op {
        0 => {
            let r = u.set_attribute(t.bytes());
            assert!(r.is_ok() == valid, "set_attribute accepts exactly alphanum{{3,8}}");
            if valid {
                k::assume(m.nattrs < VMAX || set_contains(&m.attrs, m.nattrs, &low));
                spec::insert_sorted_unique(&mut m.attrs, &mut m.nattrs, low);
            }
        }
        1 => {
            let r = u.remove_attribute(t.bytes());
            match r {
                Ok(b) => {
                    assert!(valid);
                    assert!(b == set_remove(&mut m.attrs, &mut m.nattrs, &low), "remove_attribute reports whether the attribute was present");
                }
                Err(_) => assert!(!valid, "remove_attribute rejects only malformed attributes"),
            }
        }
        2 => {
            let r = u.has_attribute(t.bytes());
            match r {
                Ok(b) => {
                    assert!(valid);
                    assert!(b == set_contains(&m.attrs, m.nattrs, &low), "has_attribute == membership in the set (normalised)");
                }
                Err(_) => assert!(!valid),
            }
        }
        _ => {
            u.clear_attributes();
            m.nattrs = 0;
        }
    }
    if !valid && op < 3 {
        assert!(m.nattrs == before.nattrs);
    }
    // every getter after every step
    assert!(h::ulist_is(u, m), "attributes(): sorted, unique, exactly the model; keywords untouched; is_empty consistent");
}

fn tag_step(p: &mut PrivateExtensionList, m: &mut PModel) {
    let op = k::u8();
    k::assume(op < 4);
    let t = sym::tok9();
    sym::note("arg", &t);
    sym::note_val("op", &op);
    let inf = spec::info(&t);
    let valid = inf.is_private();
    let low = inf.lower();
    match op {
        0 => {
            let r = p.add_tag(t.bytes());
            assert!(r.is_ok() == valid, "add_tag accepts exactly alphanum{{1,8}}");
            if valid {
                k::assume(m.ntags < VMAX);
                xspec::insert_sorted_multi(&mut m.tags, &mut m.ntags, low);
            }
        }
        1 => {
            let r = p.remove_tag(t.bytes());
            match r {
                Ok(b) => {
                    assert!(valid);
                    assert!(b == set_remove(&mut m.tags, &mut m.ntags, &low), "remove_tag removes one occurrence and reports it");
                }
                Err(_) => assert!(!valid),
            }
        }
        2 => {
            let r = p.has_tag(t.bytes());
            match r {
                Ok(b) => {
                    assert!(valid);
                    assert!(b == set_contains(&m.tags, m.ntags, &low));
                }
                Err(_) => assert!(!valid),
            }
        }
        _ => {
            p.clear_tags();
            m.ntags = 0;
        }
    }
    assert!(h::plist_is(p, m), "tags(): sorted multiset, exactly the model; is_empty consistent");
}

fn attr_history<const H: usize>() {
    let mut u = UnicodeExtensionList::default();
    let mut m = UModel { attrs: [NOTXT; VMAX], nattrs: 0, kw: xspec::KV::new() };
    let mut i = 0;
    while i < H {
        attr_step(&mut u, &mut m);
        i += 1;
    }
    cover!(m.nattrs == 2);
    core::mem::forget(u);
}
fn tag_history<const H: usize>() {
    let mut p = PrivateExtensionList::default();
    let mut m = PModel { tags: [NOTXT; VMAX], ntags: 0 };
    let mut i = 0;
    while i < H {
        tag_step(&mut p, &mut m);
        i += 1;
    }
    cover!(m.ntags == 2);
    core::mem::forget(p);
}

/// variants: set_variants with NV symbolic variants (any order, duplicates) on any identifier,
/// then has_variant / clear_variants
fn variants_ops<const NV: usize>() {
    let (mut li, mut m) = sym::any_langid(2);
    let mut vs = [Variant::from_bytes(b"aaaaa").unwrap(); NV];
    let mut nm = [NOTXT; VMAX];
    let mut nn = 0usize;
    let mut i = 0;
    while i < NV {
        let (v, vt) = sym::any_variant();
        vs[i] = v;
        spec::insert_sorted_unique(&mut nm, &mut nn, vt);
        i += 1;
    }
    li.set_variants(&vs);
    m.variants = nm;
    m.nvariants = nn;
    cover!(nn == NV);
    assert!(h::langid_is(&li, &m), "set_variants: sorted, unique, replaces the old list; language/script/region untouched");
    let (q, qt) = sym::any_variant();
    assert!(li.has_variant(q) == set_contains(&m.variants, m.nvariants, &qt), "has_variant == membership");
    if k::bool() {
        li.clear_variants();
        m.nvariants = 0;
        assert!(h::langid_is(&li, &m));
        assert!(li == LanguageIdentifier::from_parts(li.language, li.script, li.region, &[]), "cleared == never had variants (single representation)");
    }
    core::mem::forget(li);
}

proofs! {

[sortt] fn c10_attr_history_2() { attr_history::<2>() }
[sortt] fn c10_attr_history_3() { attr_history::<3>() }
[push, sortt] fn c10_tag_history_2() { tag_history::<2>() }
[push, sortt] fn c10_tag_history_3() { tag_history::<3>() }
[sortv, boxed, tovec] fn c10_variants_0() { variants_ops::<0>() }
[sortv, boxed, tovec] fn c10_variants_2() { variants_ops::<2>() }
[sortv, boxed, tovec] fn c10_variants_3() { variants_ops::<3>() }

}
