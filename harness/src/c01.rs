//! C01 — every text-accepting API call is total: Ok or Err, never a panic or a hang.
//! Decided by the absence of any reachable panic / overflow / out-of-bounds and by the unwinding
//! assertions (termination within the per-loop bound).
use crate::h;
use crate::k;
use crate::sym::{self, Tok};
use unic_locale_impl::extensions::ExtensionsMap;

fn extmap<const K: usize>() {
    let toks: [Tok; K] = h::toks9();
    h::note_toks(&toks);
    let r = h::parse_extmap_tokens(&toks);
    cover!(r.is_ok());
    cover!(r.is_err());
    core::mem::forget(r);
}
fn ulist<const K: usize>() {
    let toks: [Tok; K] = h::toks9();
    h::note_toks(&toks);
    let (r, _) = h::parse_ulist_tokens(&toks);
    cover!(r.is_ok());
    cover!(r.is_err());
    core::mem::forget(r);
}
fn tlist<const K: usize>() {
    let toks: [Tok; K] = h::toks9();
    h::note_toks(&toks);
    let (r, _) = h::parse_tlist_tokens(&toks);
    cover!(r.is_ok());
    cover!(r.is_err());
    core::mem::forget(r);
}
fn plist<const K: usize>() {
    let toks: [Tok; K] = h::toks9();
    h::note_toks(&toks);
    let r = h::parse_plist_tokens(&toks);
    cover!(r.is_ok());
    cover!(r.is_err());
    core::mem::forget(r);
}

/// the shared language-identifier entry on K arbitrary subtags, strict and permissive
fn langid<const K: usize>() {
    let toks: [Tok; K] = h::toks9();
    h::note_toks(&toks);
    let allow = k::bool();
    let (r, _left) = h::parse_tokens_rest(&toks, allow);
    cover!(r.is_ok());
    cover!(r.is_err());
    core::mem::forget(r);
}

/// byte-level entry points of both crates on a separator frame (concrete subtags, every `?` any byte)
fn entry_points<const L: usize>(pat: &[u8; L]) {
    let buf = crate::c02::sep_frame(pat);
    #[cfg(not(kani))]
    eprintln!("INPUT bytes={:?} {:?}", String::from_utf8_lossy(&buf), &buf);
    let a = unic_langid_impl::LanguageIdentifier::from_bytes(&buf);
    let b = unic_locale_impl::Locale::from_bytes(&buf);
    let c = ExtensionsMap::from_bytes(&buf);
    cover!(b.is_ok());
    cover!(b.is_err());
    core::mem::forget((a, b, c));
}

proofs! {

[push, sortv, boxed] fn c01_langid_tokens_2() { langid::<2>() }
[push, sortv, boxed] fn c01_langid_tokens_3() { langid::<3>() }
[push, sortt, sortv, boxed] fn c01_bytes_en_u_ca() { entry_points(b"en?u?ca") }
[push, sortt, sortv, boxed] fn c01_bytes_x_a() { entry_points(b"?x?a?") }

// extension dispatch on any subtag (where `unimplemented!()` lives)
[push, sortt, sortv, boxed] fn c01_extmap_dispatch_1() { extmap::<1>() }
[push, sortt, sortv, boxed] fn c01_extmap_dispatch_2() { extmap::<2>() }

// extension bodies through the individual list parsers
[push, sortt] fn c01_ulist_1() { ulist::<1>() }
[push, sortt] fn c01_ulist_2() { ulist::<2>() }
[push, sortt, sortv, boxed] fn c01_tlist_1() { tlist::<1>() }
[push, sortt, sortv, boxed] fn c01_tlist_2() { tlist::<2>() }
[push, sortt] fn c01_plist_2() { plist::<2>() }
[push, sortt] fn c01_plist_3() { plist::<3>() }

}
