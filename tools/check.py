#!/usr/bin/env python3
"""Runner: decides one property of /verif/properties.jsonl by bounded symbolic
execution (Kani 0.68 -> CBMC 6.11 -> CaDiCaL) of the real code in /repo.

    python3 tools/check.py C15 [--tier quick|thorough] [--only SUBSTR] [--keep]

exit 0  every harness verified within its bound (known findings are printed as
        KNOWN-FINDING lines), evidence written
exit 1  a solver counterexample reproduced natively against /repo and is not a
        listed known finding:  VIOLATION property=<id> replay=<path>
exit 2  inconclusive / machinery error (timeout, out of memory, unwinding bound
        not reached, counterexample that does not replay, vacuous harness)
See /verif/DESIGN.md section 2.
"""
import argparse, json, os, re, resource, shutil, subprocess, sys, threading, time, glob, hashlib
from concurrent.futures import ThreadPoolExecutor

HERE = os.path.dirname(os.path.abspath(__file__))
VERIF = os.path.dirname(HERE)
REPO = os.environ.get("VERIF_REPO", "/repo")
sys.path.insert(0, HERE)
import registry  # noqa
import cldr_ref  # noqa

KANI_TC = None
GUARD_CFG = "unic_locale_verif"

CBMC_BASE = ["--no-malloc-may-fail", "--no-undefined-shift-check", "--no-signed-overflow-check",
             "--nan-check", "--no-self-loops-to-assumptions", "--no-pointer-primitive-check",
             "--object-bits", "16", "--sat-solver", "cadical", "--slice-formula"]

ENV = dict(os.environ)
ENV.update({"CARGO_NET_OFFLINE": "true", "CARGO_TERM_COLOR": "never"})
ENV.pop("RUSTUP_TOOLCHAIN", None)


def log(*a):
    print(time.strftime("[%H:%M:%S]"), *a, flush=True)


def limit(mem_gb):
    def f():
        b = int(mem_gb * (1 << 30))
        resource.setrlimit(resource.RLIMIT_AS, (b, b))
        os.setsid()
    return f


def run(cmd, cwd=None, env=None, timeout=None, mem_gb=None, out=None):
    """run to completion; returns (rc, stdout+stderr text, seconds, timed_out)"""
    t0 = time.time()
    fh = open(out, "w") if out else subprocess.PIPE
    p = subprocess.Popen(cmd, cwd=cwd, env=env or ENV, stdout=fh, stderr=subprocess.STDOUT,
                         preexec_fn=limit(mem_gb) if mem_gb else os.setsid, text=True)
    to = False
    try:
        o, _ = p.communicate(timeout=timeout)
    except subprocess.TimeoutExpired:
        to = True
        try:
            os.killpg(p.pid, 9)
        except Exception:
            pass
        o, _ = p.communicate()
    if out:
        fh.close()
        o = ""
    return p.returncode, o or "", time.time() - t0, to


# ----------------------------------------------------------------------------
# build
# ----------------------------------------------------------------------------

class Build:
    """one `cargo kani --only-codegen` of a harness crate in one feature configuration"""

    def __init__(self, cfgname, scratch, patterns):
        self.cfg = registry.CFGS[cfgname]
        self.name = cfgname
        self.crate = os.path.join(VERIF, self.cfg["crate"])
        self.target = os.path.join(scratch, "kani-" + cfgname)
        self.patterns = patterns
        self.harnesses = {}
        self.secs = 0.0

    def rustflags(self):
        return " ".join("--cfg " + c for c in self.cfg.get("cfgs", [GUARD_CFG]))

    def feature_args(self):
        a = ["--no-default-features"]
        if self.cfg.get("features"):
            a += ["--features", ",".join(self.cfg["features"])]
        return a

    def codegen(self):
        sync_lock(self.crate)
        cmd = ["cargo", "kani", "--lib", "--only-codegen", "--no-assertion-reach-checks", "-Z", "stubbing",
               "--target-dir", self.target] + self.feature_args()
        for p in self.patterns:
            cmd += ["--harness", p]
        env = dict(ENV)
        env["RUSTFLAGS"] = self.rustflags()
        rc, o, s, to = run(cmd, cwd=self.crate, env=env, timeout=1800)
        self.secs = s
        if rc != 0:
            sys.stdout.write(o[-6000:])
            raise SystemExit2("kani codegen failed for cfg %s (rc=%s)" % (self.name, rc))
        metas = glob.glob(os.path.join(self.target, "kani", "*", "debug", "build", "*", "*", "out", "*.kani-metadata.json"))
        for m in metas:
            d = json.load(open(m))
            for h in d.get("proof_harnesses", []):
                short = h["pretty_name"].split("::")[-1]
                self.harnesses[short] = h
        return self


class SystemExit2(Exception):
    pass


_lock_mutex = threading.Lock()


def sync_lock(crate):
    """the harness crate uses the repo's own Cargo.lock (same dependency versions as its test suite)"""
    with _lock_mutex:
        lock = os.path.join(crate, "Cargo.lock")
        want = open(os.path.join(REPO, "Cargo.lock")).read()
        try:
            if open(lock).read() == want:
                return
        except OSError:
            pass
        tmp = "%s.%d.%d" % (lock, os.getpid(), threading.get_ident())
        open(tmp, "w").write(want)
        os.replace(tmp, lock)


# ----------------------------------------------------------------------------
# one harness through goto-instrument + cbmc
# ----------------------------------------------------------------------------

DEFAULT_RULES = registry.UNWIND_RULES


def parse_cbmc_json_stream(path):
    """cbmc --json-ui pretty prints a top-level array of objects, one per message, plus a
    result object.  Parse it incrementally; count (not keep) the per-iteration unwinding messages."""
    msgs, result, status = [], None, None
    unwound = {}
    buf = []
    depth_open = False
    with open(path, errors="replace") as f:
        for line in f:
            if not depth_open:
                if line.rstrip("\n") == "  {":
                    depth_open = True
                    buf = ["{"]
                continue
            s = line.rstrip("\n")
            if s in ("  }", "  },"):
                buf.append("}")
                depth_open = False
                try:
                    o = json.loads("\n".join(buf))
                except Exception:
                    continue
                if "messageText" in o:
                    t = o["messageText"]
                    m = re.match(r"(Unwinding|Not unwinding) loop (\S+) iteration (\d+)", t)
                    if m:
                        n = int(m.group(3))
                        if n > unwound.get(m.group(2), 0):
                            unwound[m.group(2)] = n
                        VISITS[m.group(2)] = VISITS.get(m.group(2), 0) + 1
                        continue
                    m = re.match(r"(Unwinding|Not unwinding) recursion (\S+) iteration (\d+)", t)
                    if m:
                        n = int(m.group(3))
                        if n > unwound.get("rec:" + m.group(2), 0):
                            unwound["rec:" + m.group(2)] = n
                        continue
                    if t.startswith("aborting path"):
                        continue
                    msgs.append((o.get("messageType", ""), t))
                elif "result" in o:
                    result = o["result"]
                elif "cProverStatus" in o:
                    status = o["cProverStatus"]
            else:
                buf.append(s)
    return msgs, result, status, unwound


def trace_values(trace):
    """the kani::any() values of a counterexample, in call order, as little-endian byte strings
    (what kani's concrete playback extracts: assignments of any_raw_internal's return value)"""
    vals = []
    for st in trace:
        if st.get("stepType") != "assignment":
            continue
        lhs = st.get("lhs", "")
        if not lhs.startswith("goto_symex$$return_value") or "any_raw_" not in lhs:
            continue
        v = st.get("value", {})
        b = v.get("binary")
        if "." in lhs.split("any_raw_")[-1]:
            continue
        if b is None:
            # an input the solver left unassigned (it cannot influence the failure): CBMC prints it
            # without a bit pattern.  It still occupies a position in the kani::any() sequence the native
            # replay consumes, so it is kept, as zero, at its declared width.
            w = v.get("width")
            if w is None:
                m = re.search(r"\[(\d+)\]", str(v.get("type", "")))
                w = int(m.group(1)) if m else 8
            vals.append("00" * max(1, int(w) // 8))
            continue
        n = len(b) // 8
        vals.append(int(b, 2).to_bytes(n, "little").hex())
    return vals


VISITS = {}


class Job:
    def __init__(self, spec, build, workdir, tier):
        self.spec = spec          # registry.J
        self.build = build
        self.work = workdir
        self.tier = tier
        self.tag = spec.harness if build.name == "std" else "%s@%s" % (spec.harness, build.name)
        self.res = {"harness": self.tag, "status": "pending"}

    def prepare(self):
        h = self.build.harnesses.get(self.spec.harness)
        if h is None:
            raise SystemExit2("harness %s not found in build %s" % (self.spec.harness, self.build.name))
        self.meta = h
        want = set(x.replace(" ", "") for x in (self.spec.stubs or []))
        have = set(s["original"].replace(" ", "") for s in h["attributes"].get("stubs", []))
        self.res["stubs"] = sorted(have)
        if not want <= have:
            raise SystemExit2("harness %s: expected stubs %s missing (have %s)" % (self.spec.harness, sorted(want - have), sorted(have)))
        src = h["goto_file"].replace(".symtab.out", ".out")
        self.goto = os.path.join(self.work, self.tag + ".out")
        steps = [
            ["goto-cc", src, "--function", h["mangled_name"], "-o", self.goto],
            ["goto-instrument", "--add-library", "--no-malloc-may-fail", self.goto, self.goto],
            ["goto-instrument", "--generate-function-body-options", "assert-false-assume-false",
             "--generate-function-body", ".*", "--drop-unused-functions", self.goto, self.goto],
            ["goto-instrument", "--ensure-one-backedge-per-target", self.goto, self.goto],
        ]
        for c in steps:
            rc, o, s, to = run(c, timeout=900, mem_gb=16)
            if rc != 0:
                raise SystemExit2("%s failed: %s" % (c[0:2], o[-2000:]))
        rc, o, s, to = run(["cbmc", "--show-loops", "--json-ui", self.goto], timeout=600, mem_gb=16)
        self.loops = []
        try:
            for e in json.loads(o):
                if "loops" in e:
                    self.loops = e["loops"]
        except Exception:
            raise SystemExit2("cannot parse --show-loops for %s" % self.spec.harness)
        # functions encoded (call graph restricted to reachable functions after --drop-unused-functions)
        rc, o, s, to = run(["goto-instrument", "--list-goto-functions", "--json-ui", self.goto], timeout=600, mem_gb=16)
        fns = set()
        for m in re.finditer(r'"name": "([^"]+)"', o):
            fns.add(m.group(1))
        pm = {}
        try:
            pm = dict((a, b) for a, b in json.load(open(h["goto_file"].replace(".symtab.out", ".pretty_name_map.json"))) if b)
        except Exception:
            try:
                pm = json.load(open(h["goto_file"].replace(".symtab.out", ".pretty_name_map.json")))
            except Exception:
                pm = {}
        pretty = set()
        for f in fns:
            p = pm.get(f) if isinstance(pm, dict) else None
            pretty.add(p or f)
        self.res["functions_repo"] = sorted(x for x in pretty if re.search(r"\bunic_(langid|locale)", x))[:400]
        self.res["functions_total"] = len(fns)

    def unwindset(self, overrides):
        rules = list((re.compile(k), v) for k, v in (self.spec.uw or {}).items()) + [(re.compile(k), v) for k, v in DEFAULT_RULES]
        us = {}
        for lp in self.loops:
            fn = lp.get("sourceLocation", {}).get("function", "") or lp["name"]
            b = None
            if lp["name"] in overrides:
                b = overrides[lp["name"]]
            else:
                for rx, v in rules:
                    if rx.search(fn):
                        b = v
                        break
            if b is None:
                b = self.spec.unwind
            us[lp["name"]] = b
        return us

    def run_cbmc(self, overrides, only_props=None):
        us = self.unwindset(overrides)
        self.us = us
        base = [x for x in CBMC_BASE if not (only_props and x == "--slice-formula")]  # the trace of a sliced formula omits irrelevant inputs
        cmd = ["cbmc"] + base + list(self.spec.cbmc or []) + ["--unwind", str(self.spec.unwind)]
        if us:
            cmd += ["--unwindset", ",".join("%s:%d" % kv for kv in sorted(us.items()))]
        cmd += [self.goto, "--verbosity", "8", "--json-ui"]
        if self.spec.trace or only_props:
            cmd.append("--trace")
        for pr in (only_props or []):
            cmd += ["--property", pr]
        self.cbmc_cmd = cmd
        out = os.path.join(self.work, self.tag + ".cbmc.json")
        timeout = self.spec.timeout_t if self.tier == "thorough" else self.spec.timeout_q
        timeout = int(timeout * float(os.environ.get("VERIF_TIME_SCALE", "1")))
        rc, _, secs, to = run(cmd, timeout=timeout, mem_gb=self.spec.mem_gb, out=out)
        msgs, result, status, unwound = parse_cbmc_json_stream(out)
        if not os.environ.get("VERIF_KEEP_JSON"):
            try:
                os.remove(out)
            except OSError:
                pass
        r = self.res
        r["cbmc_s"] = round(r.get("cbmc_s", 0) + secs, 1)
        r["unwound_max"] = dict(sorted(unwound.items(), key=lambda kv: -kv[1])[:8])
        r["unwound_all"] = unwound
        text = "\n".join(t for _, t in msgs)
        def grab(rx, conv=float, allm=False):
            ms = re.findall(rx, text)
            if not ms:
                return None
            return sum(conv(x) for x in ms) if allm else conv(ms[-1])
        r["symex_s"] = grab(r"Runtime Symex: ([0-9.e+-]+)s")
        r["solver_s"] = round(grab(r"Runtime Solver: ([0-9.e+-]+)s", float, True) or 0.0, 2)
        r["ssa_steps"] = grab(r"size of program expression: (\d+) steps", int)
        m = re.search(r"Generated (\d+) VCC\(s\), (\d+) remaining", text)
        r["vccs"] = int(m.group(1)) if m else None
        r["vccs_after_simplification"] = int(m.group(2)) if m else None
        m = re.findall(r"(\d+) variables, (\d+) clauses", text)
        r["sat_vars"], r["sat_clauses"] = (int(m[-1][0]), int(m[-1][1])) if m else (None, None)
        r["solver_calls"] = len(re.findall(r"SAT checker: instance is", text))
        if to:
            r["status"] = "timeout"
            r["detail"] = "cbmc exceeded %ds" % timeout
            return None
        if "ran out of memory" in text or status == "error" or any(p.get("status") not in ("SUCCESS", "FAILURE") for p in (result or [])):
            # CBMC reports every undecided property as ERROR when the SAT back end dies: inconclusive, never a verdict
            r["status"] = "oom" if "memory" in text.lower() else "error"
            r["detail"] = "cbmc did not decide all properties (cProverStatus=%s): %s" % (status, " | ".join(t for ty, t in msgs if ty == "ERROR")[:300])
            return None
        if result is None:
            oom = "memory" in text.lower() or rc in (-6, -9, 134, 137) or "bad_alloc" in text
            r["status"] = "oom" if oom else "error"
            r["detail"] = ("rc=%s " % rc) + text[-400:]
            return None
        return result

    def execute(self):
        t0 = time.time()
        try:
            self.prepare()
            overrides = {}
            for attempt in range(6):
                result = self.run_cbmc(overrides)
                if result is None:
                    break
                verdict = self.classify(result)
                if verdict == "failed":
                    # counterexamples: re-run the failed properties only, with --trace and without formula
                    # slicing (a sliced trace omits the inputs that do not matter, and the native replay
                    # needs every kani::any() value in call order)
                    want = [f["property"] for f in self.res["failures"][:3]]
                    saved = dict(self.res)
                    res2 = self.run_cbmc(overrides, only_props=want)
                    got = {}
                    for p in (res2 or []):
                        if p.get("status") == "FAILURE" and p.get("trace"):
                            got[p.get("property")] = trace_values(p["trace"])
                    self.res = saved
                    for f in self.res["failures"]:
                        if f["property"] in got:
                            f["vals"] = got[f["property"]]
                if verdict != "raise":
                    break
                # an unwinding assertion failed: raise that loop's bound and re-run (DESIGN 2.1 step 4)
                changed = False
                for name in self.unwind_failed:
                    cur = self.us.get(name, self.spec.unwind)
                    if cur < registry.UNWIND_CAP:
                        overrides[name] = min(registry.UNWIND_CAP, cur * 2)
                        changed = True
                self.res.setdefault("unwind_raised", {}).update(overrides)
                log("    %s: unwinding assertion failed for %s; bounds raised to %s (attempt %d)" % (self.tag, self.unwind_failed, {n: overrides.get(n) for n in self.unwind_failed}, attempt + 1))
                if not changed or attempt == 5:
                    self.res["status"] = "unwind"
                    self.res["detail"] = "unwinding assertion still failing at cap: %s" % self.unwind_failed
                    break
        except SystemExit2 as e:
            self.res["status"] = "error"
            self.res["detail"] = str(e)
        self.res["wall_s"] = round(time.time() - t0, 1)
        return self.res

    def classify(self, result):
        r = self.res
        fails, covers_sat, covers_unsat, unwind_failed, unsupported = [], [], [], [], []
        n_props = 0
        by_fn_idx = {}
        for lp in self.loops:
            by_fn_idx[lp["name"]] = lp
        for p in result:
            cls = p.get("sourceLocation", {}).get("propertyClass") or p.get("propertyClass") or ""
            name = p.get("property", "")
            if not cls:
                m = re.search(r"\.([a-z_]+)\.\d+$", name)
                cls = m.group(1) if m else ""
            st = p.get("status")
            if cls == "cover":
                (covers_sat if st == "FAILURE" else covers_unsat).append(p.get("description", ""))
                continue
            n_props += 1
            if st == "SUCCESS":
                continue
            if cls in ("unwind", "unwinding_assertion") or "unwinding assertion" in p.get("description", "") or "recursion unwinding" in p.get("description", ""):
                # map back to the loop name
                fn = p.get("sourceLocation", {}).get("function", "")
                m = re.search(r"loop (\d+)", p.get("description", ""))
                cand = [lp["name"] for lp in self.loops if lp.get("sourceLocation", {}).get("function", "") == fn
                        and (m is None or lp["name"].endswith("." + m.group(1)))]
                unwind_failed += cand or [name]
                continue
            if cls == "unsupported_construct":
                unsupported.append(p.get("description", ""))
                continue
            fails.append({"property": name, "class": cls, "description": p.get("description", ""), "vals": trace_values(p.get("trace", [])),
                          "location": "%s:%s" % (p.get("sourceLocation", {}).get("file", "?"), p.get("sourceLocation", {}).get("line", "?")),
                          "function": p.get("sourceLocation", {}).get("function", "")})
        r["properties"] = n_props
        r["covers_satisfied"] = covers_sat
        r["covers_unsatisfied"] = covers_unsat
        self.unwind_failed = sorted(set(unwind_failed))
        if fails:
            r["status"] = "failed"
            r["failures"] = fails[:12]
            r["discharged"] = n_props - len(fails) - len(unwind_failed) - len(unsupported)
            return "failed"
        if unsupported:
            r["status"] = "error"
            r["detail"] = "unsupported construct reachable: %s" % unsupported[:3]
            return "error"
        if unwind_failed:
            r["discharged"] = n_props - len(unwind_failed)
            return "raise"
        if covers_unsat:
            r["status"] = "vacuous"
            r["detail"] = "cover not satisfiable: %s" % covers_unsat[:3]
            return "vacuous"
        if self.spec.need_cover and not covers_sat:
            r["status"] = "vacuous"
            r["detail"] = "harness has no cover witness"
            return "vacuous"
        r["status"] = "ok"
        r["discharged"] = n_props
        return "ok"


# ----------------------------------------------------------------------------
# counterexample -> concrete values -> native replay
# ----------------------------------------------------------------------------

def concrete_values(job, build):
    """re-run the failing harness through kani's concrete playback to obtain the kani::any values"""
    cmd = ["cargo", "kani", "--lib", "--no-assertion-reach-checks", "-Z", "stubbing", "--target-dir", build.target + "-pb",
           "--harness", job.meta["pretty_name"], "--exact", "-Z", "concrete-playback", "--concrete-playback=print"] \
        + build.feature_args() + ["-Z", "unstable-options", "--cbmc-args", "--unwind", str(job.spec.unwind)]
    cmd += list(job.spec.cbmc or [])
    if job.us:
        cmd += ["--unwindset", ",".join("%s:%d" % kv for kv in sorted(job.us.items()))]
    env = dict(ENV)
    env["RUSTFLAGS"] = build.rustflags()
    timeout = (job.spec.timeout_t if job.tier == "thorough" else job.spec.timeout_q) + 600
    rc, o, s, to = run(cmd, cwd=build.crate, env=env, timeout=timeout, mem_gb=job.spec.mem_gb + 8)
    tests = []
    for blk in re.split(r"/// Test generated for harness", o)[1:]:
        blk = blk.split("kani::concrete_playback_run")[0]
        m = re.search(r"/// Check for `([^`]*)`: (.*)", blk)
        if not m:
            continue
        cls, desc = m.group(1), m.group(2).strip().strip('"')
        vals = []
        for vm in re.finditer(r"vec!\[([0-9, ]*)\],", blk.split("let concrete_vals", 1)[-1]):
            nums = [int(x) for x in vm.group(1).replace(" ", "").split(",") if x != ""]
            vals.append(bytes(nums))
        tests.append({"class": cls, "description": desc, "vals": vals})
    return [t for t in tests if t["class"] != "cover"], o


class Native:
    """native (non-Kani) build of the harness crate: replay binary, dev and release"""
    lock = threading.Lock()
    built = {}

    @classmethod
    def binary(cls, build, scratch, profile):
        key = (build.name, profile)
        with cls.lock:
            if key in cls.built:
                return cls.built[key]
            tdir = os.path.join(scratch, "native-" + build.name)
            cmd = ["cargo", "build", "--offline", "--bin", "replay", "--target-dir", tdir] + build.feature_args()
            if profile == "release":
                cmd.append("--release")
            env = dict(ENV)
            env["RUSTFLAGS"] = build.rustflags()
            rc, o, s, to = run(cmd, cwd=build.crate, env=env, timeout=1800)
            if rc != 0:
                sys.stdout.write(o[-4000:])
                raise SystemExit2("native replay build failed")
            p = os.path.join(tdir, "release" if profile == "release" else "debug", "replay")
            cls.built[key] = p
            return p


def replay_native(build, scratch, harness, vals):
    """returns dict(profile -> (reproduced, rc, output))"""
    hexs = ",".join(v.hex() for v in vals)
    outp = {}
    for profile in ("dev", "release"):
        b = Native.binary(build, scratch, profile)
        rc, o, s, to = run([b, harness, hexs], timeout=60)
        outp[profile] = {"rc": rc, "timed_out": to, "reproduced": (rc == 101 or rc == -6 or rc == 134 or to), "output": o[-3000:]}
    return outp


# ----------------------------------------------------------------------------
# known findings
# ----------------------------------------------------------------------------

def load_known():
    p = os.path.join(VERIF, "known_findings.json")
    if not os.path.exists(p):
        return {"findings": [], "fixed": []}
    return json.load(open(p))


def match_known(known, pid, harness, failure_desc, replay_output):
    """a finding matches on its role: property, harness regex, failing-assertion regex, and a regex
    over the INPUT lines printed by the native replay (DESIGN 2.1 step 5)"""
    for f in known.get("findings", []):
        if f.get("status", "open") != "open":
            continue
        if pid not in f.get("properties", []):
            continue
        m = f.get("match", {})
        if m.get("harness") and not re.search(m["harness"], harness):
            continue
        if m.get("assertion") and not re.search(m["assertion"], failure_desc):
            continue
        if m.get("input") and not re.search(m["input"], replay_output, re.S):
            continue
        return f
    return None


# ----------------------------------------------------------------------------
# main
# ----------------------------------------------------------------------------

def main():
    ap = argparse.ArgumentParser()
    ap.add_argument("prop")
    ap.add_argument("--tier", default=os.environ.get("VERIF_TIER", "quick"), choices=["quick", "thorough"])
    ap.add_argument("--only", default=None, help="substring filter on harness names (debugging; evidence marks the run partial)")
    ap.add_argument("--keep", action="store_true")
    ap.add_argument("--jobs", type=int, default=int(os.environ.get("VERIF_JOBS", "0")) or (os.cpu_count() or 8))
    ap.add_argument("--no-evidence", action="store_true")
    ap.add_argument("--skip-quick", action="store_true", help="developer aid: with --tier thorough, run only the harnesses the quick tier does not run")
    a = ap.parse_args()
    pid = a.prop
    seed = int(os.environ.get("VERIF_SEED", "0") or 0)
    t0 = time.time()
    if pid not in registry.PROPS:
        print("unknown or not-applicable property", pid)
        return 2
    prop = registry.PROPS[pid]
    scratch_root = os.environ.get("VERIF_SCRATCH", "/var/tmp")
    scratch = os.path.join(scratch_root, "vp-%s-%d" % (pid, os.getpid()))
    os.makedirs(scratch, exist_ok=True)
    rc = 2
    try:
        rc = drive(pid, prop, a, seed, scratch, t0)
    except SystemExit2 as e:
        log("MACHINERY-ERROR", e)
        rc = 2
    except Exception:
        import traceback
        traceback.print_exc()
        log("MACHINERY-ERROR unexpected exception (exit 2: inconclusive, not a verdict)")
        rc = 2
    finally:
        if not a.keep:
            shutil.rmtree(scratch, ignore_errors=True)
    return rc


def drive(pid, prop, a, seed, scratch, t0):
    tier = a.tier
    specs = [j for j in prop.jobs if j.tier != "x" and (tier == "thorough" or j.tier == "q")]  # tier "x": kept in the registry for reference, measured out of reach
    if a.skip_quick:
        specs = [j for j in specs if j.tier != "q"]
    if a.only:
        specs = [j for j in specs if any(x in j.harness for x in a.only.split(','))]
    if not specs:
        raise SystemExit2("no harness selected")
    log("property %s tier %s: %d harnesses" % (pid, tier, len(specs)))

    # 0. pre-steps (reference tables re-derived from /repo data; spec validation on repo fixtures)
    pre = {}
    t_ref = time.time()
    pre["cldr_ref"] = cldr_ref.write(REPO, VERIF)
    pre["cldr_ref"]["seconds"] = round(time.time() - t_ref, 2)
    for step in prop.pre:
        pre[step.__name__] = step(REPO, VERIF, scratch, log)

    # 1. codegen per build configuration, from /repo's current working tree
    cfgs = sorted(set(j.cfg for j in specs))
    builds = {}
    def do_build(c):
        pats = sorted(set(j.harness for j in specs if j.cfg == c))
        # kani matches --harness by substring; use the common property prefix when it selects the same set
        b = Build(c, scratch, pats).codegen()
        log("codegen cfg=%s: %d harnesses in %.0fs" % (c, len(b.harnesses), b.secs))
        return c, b
    with ThreadPoolExecutor(max_workers=max(1, len(cfgs))) as ex:
        for c, b in ex.map(do_build, cfgs):
            builds[c] = b

    # 2. run harnesses in parallel under a memory budget
    work = os.path.join(scratch, "work")
    os.makedirs(work, exist_ok=True)
    jobs = [Job(j, builds[j.cfg], work, tier) for j in specs]
    jobs.sort(key=lambda j: -j.spec.weight)
    mem_budget = float(os.environ.get("VERIF_MEM_GB", "52"))
    cv = threading.Condition()
    state = {"mem": 0.0, "running": 0}
    results = []

    def worker(job):
        # the per-harness cap (RLIMIT_AS) is a ceiling on address space, not what a run uses (measured
        # resident sizes are 1-4 GB for caps up to 24 GB); small and medium jobs are scheduled at half
        # their cap so the cores are used, the big-table jobs at their full cap
        need = job.spec.mem_gb * (0.5 if job.spec.mem_gb <= 24 else 1.0)
        with cv:
            while state["running"] > 0 and (state["mem"] + need > mem_budget or state["running"] >= a.jobs):
                cv.wait()
            state["mem"] += need
            state["running"] += 1
        try:
            r = job.execute()
        finally:
            with cv:
                state["mem"] -= need
                state["running"] -= 1
                cv.notify_all()
        log("  %-44s %-8s %6.1fs  props=%s steps=%s solver=%ss %s" % (
            job.tag, r["status"], r.get("wall_s", 0), r.get("properties"), r.get("ssa_steps"), r.get("solver_s"),
            (r.get("detail", "") or "; ".join("%s @%s" % (f["description"], f["location"].split("/")[-1]) for f in r.get("failures", [])[:4]))[:400].replace("\n", " ")))
        if os.environ.get("VERIF_SHOW_LOOPS"):
            for lp in getattr(job, "loops", []):
                fn = lp.get("sourceLocation", {}).get("function", "") or lp["name"]
                log("      loop %-110s bound=%s unwound=%s visits=%s" % (fn[:110], getattr(job, "us", {}).get(lp["name"]), r.get("unwound_all", {}).get(lp["name"]), VISITS.get(lp["name"])))
        return r

    with ThreadPoolExecutor(max_workers=max(1, min(a.jobs, len(jobs)))) as ex:
        results = list(ex.map(worker, jobs))

    # 3. failures -> concrete playback -> native replay -> known-finding matching
    known = load_known()
    violations, known_hits, inconclusive = [], [], []
    for job, r in zip(jobs, results):
        if r["status"] == "ok":
            continue
        if r["status"] != "failed":
            inconclusive.append((job.tag, r["status"], r.get("detail", "")))
            continue
        tests = [{"class": f["class"], "description": f["description"], "vals": [bytes.fromhex(x) for x in f.get("vals", [])]} for f in r.get("failures", [])]
        if not tests:
            inconclusive.append((job.spec.harness, "no-playback", "no counterexample trace for the failure"))
            r["status"] = "no-playback"
            continue
        seen_roles = set()
        r["replays"] = []
        for t in tests:
            rep = replay_native(job.build, scratch, job.spec.harness, t["vals"])
            repro = rep["dev"]["reproduced"] or rep["release"]["reproduced"]
            inputs = "\n".join(l for l in (rep["dev"]["output"] + "\n" + rep["release"]["output"]).splitlines()
                               if l.startswith("INPUT") or "panicked" in l or "assert" in l.lower())
            entry = {"assertion": t["description"], "class": t["class"], "vals": [v.hex() for v in t["vals"]],
                     "reproduced_dev": rep["dev"]["reproduced"], "reproduced_release": rep["release"]["reproduced"],
                     "native_output": rep["dev"]["output"][-1500:]}
            r["replays"].append(entry)
            if not repro:
                log("    native replay of %s did not panic (dev rc=%s, release rc=%s); vals=%s; output tail: %s" % (
                    job.spec.harness, rep["dev"]["rc"], rep["release"]["rc"], entry["vals"][:24], rep["dev"]["output"][-600:].replace("\n", " | ")))
                inconclusive.append((job.spec.harness, "not-reproduced",
                                     "solver counterexample for '%s' does not reproduce natively (model/stub issue)" % t["description"]))
                continue
            kf = match_known(known, pid, job.spec.harness, t["description"], rep["dev"]["output"] + rep["release"]["output"])
            if kf:
                entry["known_finding"] = kf["id"]
                known_hits.append((kf, job.spec.harness, t["description"]))
                continue
            # unlisted, reproduced: a violation
            rdir = os.path.join(VERIF, "replays", pid)
            os.makedirs(rdir, exist_ok=True)
            rpath = os.path.join(rdir, "%s-%s.json" % (job.spec.harness, hashlib.sha1(("|".join(entry["vals"]) + t["description"]).encode()).hexdigest()[:10]))
            json.dump({"property": pid, "harness": job.spec.harness, "cfg": job.build.name, "assertion": t["description"],
                       "vals": entry["vals"], "inputs": inputs.splitlines(), "native_output_dev": rep["dev"]["output"],
                       "native_output_release": rep["release"]["output"],
                       "how": "python3 tools/check.py --replay %s" % rpath}, open(rpath, "w"), indent=1)
            violations.append((rpath, job.spec.harness, t["description"], inputs))
        if r["replays"] and all(e.get("known_finding") for e in r["replays"]):
            r["status"] = "known-finding"

    # 4. report
    printed = set()
    for kf, h, d in known_hits:
        if kf["id"] in printed:
            continue
        printed.add(kf["id"])
        print("KNOWN-FINDING: property=%s %s [%s]" % (pid, kf["what"], kf["id"]), flush=True)
    for rpath, h, d, inputs in violations:
        log("violation in %s: %s\n%s" % (h, d, inputs))
        print("VIOLATION property=%s replay=%s" % (pid, rpath), flush=True)
    for h, st, d in inconclusive:
        log("INCONCLUSIVE %s: %s %s" % (h, st, d[:500]))

    wall = time.time() - t0
    if not a.no_evidence:
        write_evidence(pid, prop, tier, seed, jobs, results, builds, pre, violations, known_hits, inconclusive, wall, partial=bool(a.only or a.skip_quick))
    if violations:
        return 1
    if inconclusive:
        return 2
    log("property %s: all %d harnesses verified within their bounds (%.0fs)" % (pid, len(jobs), wall))
    return 0


def write_evidence(pid, prop, tier, seed, jobs, results, builds, pre, violations, known_hits, inconclusive, wall, partial):
    ok = [r for r in results if r["status"] == "ok"]
    obligations = sum(r.get("properties") or 0 for r in results)
    discharged = sum(r.get("discharged") or 0 for r in results)
    steps = sum(r.get("ssa_steps") or 0 for r in results)
    vccs = sum(r.get("vccs") or 0 for r in results)
    fns = sorted(set(f for r in results for f in r.get("functions_repo", [])))
    samples = []
    for j, r in zip(jobs, results):
        samples.append({"harness": j.tag, "bound": j.spec.desc, "status": r["status"], "properties": r.get("properties"),
                        "cover_witnesses": r.get("covers_satisfied", [])[:6], "replays": r.get("replays", [])[:3]})
    traces = sum(len(r.get("replays", [])) for r in results) + sum(v.get("validated", 0) for v in pre.values() if isinstance(v, dict))
    cov = {
        "states": max(1, steps),
        "transitions": max(1, vccs),
        "traces_validated_against_impl": traces,
        "samples": samples[:60],
        "explanation": "Bounded model checking of the compiled Rust code: 'states' is the total number of SSA steps "
                       "CBMC's symbolic execution produced over all harnesses (each step stands for every concrete state reaching it), "
                       "'transitions' the number of verification conditions generated, 'obligations' the number of checked properties "
                       "(the harness assertions plus Kani's panic/overflow/bounds/pointer checks and every unwinding assertion), "
                       "'discharged' those the SAT solver proved for all inputs within the bound. "
                       "traces_validated_against_impl counts solver counterexamples replayed natively plus reference-model validation cases run against the real library.",
        "obligations": obligations,
        "discharged": discharged,
        "harnesses": len(results),
        "harnesses_verified": len(ok),
        "exhaustive": False,
        "checker_cmd": "cargo kani --only-codegen (kani 0.68.0) ; goto-instrument ; cbmc 6.11.0 " + " ".join(CBMC_BASE) + " --unwind D --unwindset <per loop>",
        "functions_encoded": fns[:300],
        "functions_encoded_count": len(fns),
        "bounds": prop.bounds,
        "outside_bounds": prop.outside,
        "per_harness": [{k: r.get(k) for k in ("harness", "status", "properties", "discharged", "ssa_steps", "vccs", "sat_vars", "sat_clauses",
                                                "solver_calls", "symex_s", "solver_s", "cbmc_s", "wall_s", "stubs", "unwound_max", "unwind_raised", "detail", "failures", "covers_unsatisfied")
                         if r.get(k) not in (None, [], {})} for r in results],
        "builds": {k: {"features": b.cfg.get("features", []), "cfgs": b.cfg.get("cfgs", [GUARD_CFG]), "codegen_s": round(b.secs, 1)} for k, b in builds.items()},
        "pre_steps": pre,
        "solver_s_total": round(sum(r.get("solver_s") or 0 for r in results), 1),
        "symex_s_total": round(sum(r.get("symex_s") or 0 for r in results), 1),
        "known_findings_seen": sorted(set(k["id"] for k, _, _ in known_hits)),
        "inconclusive": [list(x) for x in inconclusive],
        "partial_run": partial,
        "repo_head": subprocess.run(["git", "-C", REPO, "rev-parse", "HEAD"], capture_output=True, text=True).stdout.strip(),
        "repo_dirty": bool(subprocess.run(["git", "-C", REPO, "status", "--porcelain", "-uno"], capture_output=True, text=True).stdout.strip()),
    }
    ev = {
        "property_id": pid, "tier": tier, "seed": seed, "level": "model_checking", "coverage": cov,
        "assumptions": prop.assumptions + registry.GLOBAL_ASSUMPTIONS,
        "wall_s": round(wall, 1), "violations": len(violations),
    }
    os.makedirs(os.path.join(VERIF, "evidence"), exist_ok=True)
    p = os.path.join(VERIF, "evidence", pid + ".json")
    json.dump(ev, open(p + ".tmp", "w"), indent=1)
    os.replace(p + ".tmp", p)


def replay_file(path):
    d = json.load(open(path))
    scratch = os.path.join(os.environ.get("VERIF_SCRATCH", "/var/tmp"), "vp-replay-%d" % os.getpid())
    os.makedirs(scratch, exist_ok=True)
    try:
        b = Build(d["cfg"], scratch, [])
        sync_lock(b.crate)
        rep = replay_native(b, scratch, d["harness"], [bytes.fromhex(v) for v in d["vals"]])
        for prof, r in rep.items():
            print("== %s: reproduced=%s rc=%s" % (prof, r["reproduced"], r["rc"]))
            print(r["output"])
        return 1 if any(r["reproduced"] for r in rep.values()) else 0
    finally:
        shutil.rmtree(scratch, ignore_errors=True)


if __name__ == "__main__":
    if len(sys.argv) >= 3 and sys.argv[1] == "--replay":
        sys.exit(replay_file(sys.argv[2]))
    sys.exit(main())
