HOOKS = {
    "guard": "unic_locale_verif",
    "enable": "RUSTFLAGS='--cfg unic_locale_verif' (set by tools/check.py for every Kani and native-replay build of /repo's crates)",
    "baseline_off_cmd": "cd /repo && cargo test --workspace --no-fail-fast --offline",
    "source_commits": ["68869d5", "ab38439", "4d0aab9", "6037a55"],
    "add_only": True,
}

NOTES = ("Every check rebuilds /repo's crates from the current working tree with Kani, so edits under /repo are picked up. "
         "Exit 2 means inconclusive (timeout, memory, vacuity, non-reproducing counterexample) and is never reported as success or as a violation. "
         "Scratch build output goes to $VERIF_SCRATCH (default /var/tmp/vp-<id>-<pid>) and is removed at exit.")

NOT_APPLICABLE = {
    "C08": "not within reach of the solver here: one minimize performs up to four maximize calls, and after the first one the language is the value of a table row (a symbolic integer), so every further lookup is a binary search of the 7143-row table with a symbolic key. Every harness over a CLDR-known language ran out of memory (16, 28 and 46 GB caps; concrete languages zh/sr/en with script and region symbolic, with and without both present); only the unknown-language case (qaa: nothing changes) verified, which is too little to claim the property. Harnesses are kept in harness/src/c08.rs and tools/registry.py for reference (DESIGN.md section 10). maximize itself, on which minimize is built, is decided under C06/C07.",
    "C16": "proc-macro expansion and compile-time diagnostics are executions of rustc against the proc_macro bridge; they cannot be linked into a Kani harness or encoded for an SMT solver, and two thirds of the statement are facts about compiler runs. The run-time lemmas the expansions rely on are decided under C17/C05 (DESIGN.md section 4 C16, section 9).",
}

TRUST = "Trusted: Kani 0.68 / CBMC 6.11 / CaDiCaL, rustc's MIR, the reference model in harness/src/spec.rs (xspec.rs, lk.rs) and, where listed, the std models of harness/src/stubs.rs."

# properties whose checks have been run green on the unchanged tree (everything else is listed under not_applicable with the reason)
READY = ["C06", "C07", "C11", "C14", "C15", "C17", "C18"]  # extended below as checks go green
READY += [x for x in open(__import__("os").path.join(__import__("os").path.dirname(__import__("os").path.abspath(__file__)), "ready.txt")).read().split()]

CLAIMS = {
    "C01": {
        "text": "Totality is decided as the absence of any reachable panic, arithmetic overflow, out-of-bounds access or unwinding-bound violation (= termination within the stated loop bounds) in the real code when every input byte is a solver variable: the token-level language-identifier parser (allow_extension symbolic), the extension dispatcher on an arbitrary subtag, the -u- and -x- body parsers on fully symbolic and length-profiled subtags, every extension getter/setter on arbitrary arguments (C10 harnesses), from_bytes on every string of <= 1 byte, and maximize on every (und, script?, region?). The -t- body parser, from_bytes on longer strings and the 7143-row table are thorough-tier. The solver found the unimplemented!() panic (now fixed) from a subtag of eight NUL bytes.",
        "note": TRUST,
    },
    "C02": {
        "text": "The real token-level parser entry (LanguageIdentifier::try_from_iter, shared by from_bytes/FromStr/canonicalize) is compared inside one SAT query with an independent UTS #35 recogniser/canonicaliser on k fully symbolic subtags: acceptance is exact in both directions, the parsed fields equal the reference canonical form (case, sorted unique variants, und), and the error kind is InvalidLanguage iff the first subtag is not a language. The byte-level harnesses add the split predicate and empty/leading/trailing separators: strings of <= 1 byte in the quick tier, <= 4 bytes and separator frames in the thorough tier.",
        "note": TRUST,
    },
    "C03": {
        "text": "The locale parser is decided compositionally along its own structure: (a) each extension-body parser on length-profiled frames (lengths concrete from the boundary classes, every byte symbolic) must produce exactly the reference value (through the getters) and leave exactly the subtags the reference says cannot continue the body; (b) the dispatcher on a fully symbolic subtag must reject everything that is not a singleton t/u/x (or empty / other singleton, where the property allows either); (c) composition frames through the whole extension map check repeated singletons, ordering and that nothing is dropped. The quick tier decides (a) for -u- and -x- and (b); the -t- body and (c) are thorough-tier only.",
        "note": TRUST,
    },
    "C04": {
        "text": "to_string() of symbolically constructed values (real Display + core::fmt executed by CBMC) is compared byte for byte with the reference canonical serialiser and the model is re-checked by the strict canonical recogniser: language identifiers with 0..2 variants, every subtag type, -u- lists built in place by the public setters, parsed private tags; canonicalize at token level equals the reference canonicalisation and is never longer than its input. Keywords, -t- lists and whole Locales are thorough-tier.",
        "note": TRUST,
    },
    "C05": {
        "text": "Round trip parse(to_string(x)) == x is executed symbolically end to end for every subtag type; for language identifiers the serialiser's own subtags are fed back through the real token-level parser and must give an equal value (C04 decides that Display is exactly their '-' join); canonicalize is idempotent on two fully symbolic subtags. Locale / ExtensionsMap round trips are not claimed as one composed statement (see level_note).",
        "note": TRUST,
    },
    "C06": {
        "text": "maximize is compared with an independent reference over tables re-derived from data/likelySubtags.json on every run: every CLDR entry K -> V by a symbolic row index (all rows of a table at once, no loop) - the five small key shapes in the quick tier, all 7142 language-only keys in the thorough tier - and the lookup cascade for every valid (script?, region?) with an undetermined language and with the concrete languages zh, sr and qaa against the reference's own binary search; the bool/None clause and the LanguageIdentifier wrapper are asserted too. The cascade for an arbitrary symbolic language is outside the claim (see level_note).",
        "note": TRUST + " Reference tables come from tools/cldr_ref.py (own JSON -> integer packer); C18 decides the compiled tables equal them.",
    },
    "C07": {
        "text": "Purely algebraic laws of the real maximize on every valid (script?, region?) with an undetermined language and with the concrete languages zh and qaa (quick), and on every valid (language, script?, region?) plus the fixed-point clause (thorough): given subtags kept (an unknown language is never replaced by a table language), all three present afterwards, bool <=> found, false => unchanged, variants untouched.",
        "note": TRUST,
    },
    "C08": {
        "text": "The minimize laws are asserted on the real likelysubtags::minimize / maximize pair: the result maximizes back to the maximised original, uses only its subtags, has one of the three shapes language / language-region / language-script and is the first of them that maximizes back; minimizing twice and minimize-after-maximize agree with minimizing once; the LanguageIdentifier wrapper leaves variants alone and reports the change truthfully.",
        "note": TRUST + " One minimize performs up to four maximize calls (ten binary searches, three of them in the 7143-row table), so the quick tier fixes the language to concrete representatives (zh, qaa) and keeps script and region fully symbolic; arbitrary languages are thorough-only.",
    },
    "C09": {
        "text": "Metamorphic, no oracle: the same symbolic subtags are parsed twice by the real code - once as given, once under a symbolic letter-case mask, a permutation or a duplication - and the two outcomes must be both errors or equal values.",
        "note": TRUST,
    },
    "C10": {
        "text": "Every mutator and getter of each component is compared step by step with a sorted-array model on fully symbolic arguments: short histories from the default state, and for the two vector-backed sets a single operation from an arbitrary pre-state that satisfies the representation invariant (an inductive step: the post-state is shown to satisfy the invariant again, so histories of any length over states of <= 3 elements are covered). Error => unchanged and argument normalisation are part of every step.",
        "note": TRUST + " The arbitrary pre-state is built through a cfg-guarded raw constructor (hook).",
    },
    "C19": {
        "text": "The library's Serialize / Deserialize impls are run under the solver against a minimal capturing Serializer and one-value Deserializers defined in the harness: the serialised text equals the reference canonical string for every symbolic identifier, every non-string kind is rejected without panic, and visit_str agrees with FromStr on the listed strings.",
        "note": TRUST + " serde's trait plumbing is compiled as is; serde_json is outside.",
    },
    "C20": {
        "text": "The exact-reference harnesses of C15, C02, C04, C11, C12, C10, C03, C13 are rebuilt through the facade crates under different feature sets; each verifies against the same feature-independent reference, hence the configurations agree with each other on every input within the harness bounds.",
        "note": TRUST,
    },
    "C11": {
        "text": "matches() of the real code equals the field-wise wildcard formula for every pair of symbolic identifiers (any valid language or und, optional script, optional region, 0..2 variants per side) and all four flag pairs; the derived laws (equality without flags, symmetry with swapped flags, reflexivity, monotonicity) are asserted on the real function as well; Language::matches separately.",
        "note": TRUST,
    },
    "C12": {
        "text": "==, cmp, partial_cmp and Hash of LanguageIdentifier are compared with a field-by-field reference (absent first) on symbolic pairs and triples; x == y iff to_string equal (real Display); comparison with &str iff the string is the canonical text, for every ASCII string of <= 16 bytes; construction routes to the same logical value (set_variants(&[]) / clear_variants / from_parts(.., &[]) / never set; attribute or private tag added then removed vs never added) are ==, hash equally and compare Equal.",
        "note": TRUST + " Hash is decided for a fixed rotate-xor hasher with a write counter, defined in the harness.",
    },
    "C13": {
        "text": "Both token-level entries are run on the same fully symbolic subtags: whenever LanguageIdentifier accepts, Locale's entry accepts with an identical id and nothing left for the extension parser (directly on 1..2 subtags; on 3 subtags decomposed through the reference: real permissive entry == reference permissive parse, a lemma about the reference alone, and C02 for the strict entry); the id of a locale equals the strict parse of the consumed prefix (same decomposition); conversions LanguageIdentifier <-> Locale and AsRef are identities on symbolic values.",
        "note": TRUST,
    },
    "C14": {
        "text": "character_direction is decided against a model re-derived from the 710 CLDR layout files: every locale directory by symbolic row index in both feature configurations (the script-less rows of RTL-listed languages with likelysubtags on are thorough-tier: they reach the 7143-row table), plus the script-decides / non-RTL-language / variants-irrelevant clauses on arbitrary symbolic identifiers (quick: without likelysubtags; thorough: with).",
        "note": TRUST + " Reference derived by tools/cldr_ref.py.",
    },
    "C15": {
        "text": "For each of Language, Script, Region, Variant the solver decides, over every byte string of length 0..=9 (all 256 byte values, no ASCII assumption), that from_bytes succeeds exactly on the UTS #35 production and that the stored text is the case-folded input; the reference recogniser is 10 lines of byte loops written from the EBNF. This is the property's whole quantifier up to length 9, which sampling cannot cover (2^72 inputs per type).",
        "note": TRUST,
    },
    "C17": {
        "text": "Integer form <-> subtag round trips, text integrity and injectivity for every valid subtag of each type (all inputs the checked constructor accepts); from_parts(into_parts(x)) == x; from_parts on symbolic variant arrangements (any order, duplicates) equals the reference canonical value that the parser is also shown to produce (C02).",
        "note": TRUST,
    },
    "C18": {
        "text": "Every row of all six compiled likely-subtags tables and all four direction tables is compared, by symbolic row index, with an independent re-derivation from the CLDR JSON files: same keys, same values, strictly increasing in the binary search's key order, every stored integer decodes through the checked constructor and re-encodes to itself, every value has language+script+region; direction tables equal the reference sets in both directions; CLDR_VERSION equals the data's.",
        "note": TRUST + " The 7143-row table is flattened into integer columns by rustc's constant evaluator from the compiled static itself (harness/src/c18.rs) because CBMC cannot index 40-byte tuples symbolically at that size.",
    },
}
