HOOKS = {
    "guard": "unic_locale_verif",
    "enable": "RUSTFLAGS='--cfg unic_locale_verif' (set by tools/check.py for every Kani and native-replay build of /repo's crates)",
    "baseline_off_cmd": "cd /repo && cargo test --workspace --no-fail-fast --offline",
    "source_commits": [],
    "add_only": True,
}

NOTES = ("Every check rebuilds /repo's crates from the current working tree with Kani, so edits under /repo are picked up. "
         "Exit 2 means inconclusive (timeout, memory, vacuity, non-reproducing counterexample) and is never reported as success or as a violation. "
         "Scratch build output goes to $VERIF_SCRATCH (default /var/tmp/vp-<id>-<pid>) and is removed at exit.")

NOT_APPLICABLE = {
    "C16": "proc-macro expansion and compile-time diagnostics are executions of rustc against the proc_macro bridge; they cannot be linked into a Kani harness or encoded for an SMT solver, and two thirds of the statement are facts about compiler runs. The run-time lemmas the expansions rely on are decided under C17/C05 (DESIGN.md section 4 C16, section 9).",
}

CLAIMS = {
    "C15": {
        "text": "For each of Language, Script, Region, Variant the solver decides, over every byte string of length 0..=9 (all 256 byte values, no ASCII assumption), that from_bytes succeeds exactly on the UTS #35 production and that the stored text is the case-folded input; the reference recogniser is 10 lines of byte loops written from the EBNF. This is the property's whole quantifier up to length 9, which sampling cannot cover (2^72 inputs per type).",
        "note": "Trusted: Kani/CBMC/CaDiCaL, the reference recogniser in harness/src/spec.rs.",
    },
}
