#!/usr/bin/env python3
"""Regenerates the machine-written tables of DESIGN.md (between the BEGIN/END markers) from
tools/registry.py, evidence/*.json and seeded/RESULTS.json."""
import json, os, re, sys, glob
HERE = os.path.dirname(os.path.abspath(__file__)); VERIF = os.path.dirname(HERE)
sys.path.insert(0, HERE)
import registry

def ev(pid):
    p = os.path.join(VERIF, "evidence", pid + ".json")
    return json.load(open(p)) if os.path.exists(p) else None

TH = json.load(open(os.path.join(HERE, "thorough_measured.json")))

def harness_table():
    out = []
    ready = set(open(os.path.join(HERE, "ready.txt")).read().split()) | {"C06", "C07", "C11", "C14", "C15", "C17", "C18"}
    for pid in sorted(registry.PROPS):
        P = registry.PROPS[pid]
        e = ev(pid)
        per = {h["harness"]: h for h in (e or {}).get("coverage", {}).get("per_harness", [])}
        q = [j for j in P.jobs if j.tier == "q"]; t = [j for j in P.jobs if j.tier == "t"]; x = [j for j in P.jobs if j.tier == "x"]
        out.append("#### %s — %s (quick %d harnesses, thorough %d)%s\n" % (pid, "claimed" if pid in ready else "NOT claimed", len(q), len(q) + len(t),
                   (" — last evidence: tier %s, %.0f s wall, %s/%s obligations discharged" % (e["tier"], e["wall_s"], e["coverage"].get("discharged"), e["coverage"].get("obligations"))) if e else ""))
        out.append("| harness | tier | what is symbolic / asserted | last measured |")
        out.append("|---|---|---|---|")
        seen = set()
        for j in P.jobs:
            tag = j.harness if j.cfg == "std" else "%s@%s" % (j.harness, j.cfg)
            if pid == "C20" and not (j.cfg in ("facade_none", "facade_likel_serde_macro")):
                continue
            if tag in seen:
                continue
            seen.add(tag)
            h = per.get(tag)
            meas = ("%s, %.0f s, %s steps, solver %s s" % (h.get("status"), h.get("wall_s") or 0, h.get("ssa_steps"), h.get("solver_s"))) if h else TH.get(tag, "kept for reference, not verified to completion in the final session" if j.tier == "x" else "not re-measured individually")
            out.append("| `%s` | %s | %s | %s |" % (tag, {"q": "quick", "t": "thorough", "x": "-"}[j.tier], j.desc.replace("|", "\\|"), meas))
        if pid == "C20":
            out.append("| (same 13 harnesses under the other 6 feature subsets) | thorough | | |")
        out.append("")
        out.append("Bounds: %s.  Outside the claim: %s.\n" % (P.bounds, P.outside))
    return "\n".join(out)

def seed_table():
    p = os.path.join(VERIF, "seeded", "RESULTS.json")
    res = json.load(open(p)) if os.path.exists(p) else {}
    by = {}
    for k, r in res.items():
        by.setdefault(r["seed"], []).append(r)
    out = ["| seed | property | what was changed (needs) | checks run -> verdict |", "|---|---|---|---|"]
    for d in sorted(glob.glob(os.path.join(VERIF, "seeded", "C*"))):
        sid = os.path.basename(d)
        m = json.load(open(os.path.join(d, "meta.json")))
        runs = by.get(sid, [])
        cell = "; ".join("%s %s [%s] -> **%s**%s" % (r["prop"], r["tier"], r.get("only") or "all", r["verdict"],
                                                       (" (" + r["evidence"][-1][:70].replace("|", "/") + ")") if r["verdict"] == "caught" and r.get("evidence") else "") for r in sorted(runs, key=lambda r: r["prop"]))
        out.append("| %s | %s | %s | %s |" % (sid, m["property"], (m.get("breaks") or "")[:230].replace("|", "/").replace("\n", " "), cell or "not run yet"))
    return "\n".join(out)

p = os.path.join(VERIF, "DESIGN.md")
s = open(p).read()
for name, fn in (("HARNESS-TABLE", harness_table), ("SEED-TABLE", seed_table)):
    b, e = "<!-- BEGIN %s -->" % name, "<!-- END %s -->" % name
    if b in s:
        s = s[:s.index(b) + len(b)] + "\n" + fn() + "\n" + s[s.index(e):]
open(p, "w").write(s)
print("tables regenerated")
