#!/bin/bash
# developer aid: run the quick tier of the given properties one after the other from /verif (writes
# evidence); a property whose check exits 0 is appended to tools/ready.txt (claimed by gen_manifest.py)
cd /verif || exit 3
for p in "$@"; do
  VERIF_MEM_GB=${EVMEM:-28} VERIF_JOBS=${EVJOBS:-10} VERIF_TIME_SCALE=${EVSCALE:-0.5} python3 tools/check.py "$p" --tier quick > "/tmp/ev_$p.log" 2>&1
  rc=$?
  echo "$p exit $rc $(date +%H:%M:%S)" >> /tmp/evchain.status
  if [ $rc -eq 0 ] && ! grep -qx "$p" /verif/tools/ready.txt; then echo "$p" >> /verif/tools/ready.txt; fi
done
echo DONE >> /tmp/evchain.status
