#!/usr/bin/env python3
"""Regenerates /verif/MANIFEST.json from tools/registry.py (claimed checks) and tools/manifest_text.py (wording)."""
import json, os, sys
HERE = os.path.dirname(os.path.abspath(__file__))
VERIF = os.path.dirname(HERE)
sys.path.insert(0, HERE)
import registry, manifest_text as T

ids = [json.loads(l)["id"] for l in open(os.path.join(VERIF, "properties.jsonl"))]
checks, na = [], []
for pid in ids:
    if pid in registry.PROPS and pid in T.CLAIMS and pid in T.READY:
        c = T.CLAIMS[pid]
        p = registry.PROPS[pid]
        nq = len([j for j in p.jobs if j.tier == "q"]); nall = len([j for j in p.jobs if j.tier != "x"])
        checks.append({
            "property_id": pid,
            "quick_cmd": "python3 tools/check.py %s --tier quick" % pid,
            "thorough_cmd": "python3 tools/check.py %s --tier thorough" % pid,
            "evidence_file": "/verif/evidence/%s.json" % pid,
            "replay_cmd_template": "python3 tools/check.py --replay {path}",
            "engine": "kani-cbmc",
            "level_claimed": {"category": "model_checking", "text": c["text"], "design_ref": c.get("design_ref", "DESIGN.md section 4 " + pid)},
            "level_note": c["note"] + " Bounds: " + p.bounds + ". Outside the claim: " + p.outside + " (%d harnesses quick, %d thorough)." % (nq, nall),
            "technique": c.get("technique", "bounded symbolic execution of the compiled Rust code (Kani 0.68 -> CBMC 6.11, CaDiCaL): inputs are symbolic variables, the property is an assertion against an independent reference, SAT decides all values within the bound; counterexamples replayed natively"),
        })
    else:
        na.append({"property_id": pid, "reason": T.NOT_APPLICABLE.get(pid, "check not built yet in this session; planned in DESIGN.md section 4")})

m = {
    "version": 1,
    "setup_cmd": "python3 tools/setup.py",
    "hooks": T.HOOKS,
    "engines": [{"name": "kani-cbmc", "path": "tools/check.py", "serves_properties": [c["property_id"] for c in checks],
                 "kind_free_text": "solver-based bounded model checking of the real Rust code: Kani 0.68 compiles /repo's crates plus /verif/harness to GOTO, tools/check.py derives per-loop unwinding bounds and runs CBMC 6.11 with CaDiCaL; counterexamples are replayed natively (dev+release) before being reported"}],
    "checks": checks,
    "not_applicable": na,
    "notes": T.NOTES,
}
json.dump(m, open(os.path.join(VERIF, "MANIFEST.json"), "w"), indent=1)
print("claimed:", [c["property_id"] for c in checks]); print("not claimed:", [n["property_id"] for n in na])
