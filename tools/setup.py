#!/usr/bin/env python3
"""MANIFEST.setup_cmd: nothing is pre-built (every check rebuilds from /repo); verify the tool chain is present offline."""
import shutil, subprocess, sys
missing = [t for t in ("cargo", "cargo-kani", "cbmc", "goto-cc", "goto-instrument") if not shutil.which(t)]
if missing:
    print("missing tools:", missing); sys.exit(1)
for c in (["cargo", "kani", "--version"], ["cbmc", "--version"]):
    r = subprocess.run(c, capture_output=True, text=True)
    print(" ".join(c), "->", (r.stdout or r.stderr).strip().splitlines()[-1])
    if r.returncode != 0:
        sys.exit(1)
print("setup ok")
