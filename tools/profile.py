#!/usr/bin/env python3
"""Developer aid: per-function count of symbolic-execution steps for one harness.
    python3 tools/profile.py C03 c03_u_3
"""
import sys, os, re, json, subprocess, collections, glob, shutil
HERE = os.path.dirname(os.path.abspath(__file__))
sys.path.insert(0, HERE)
import check, registry

pid, hname = sys.argv[1], sys.argv[2]
scratch = "/var/tmp/vp-prof-%d" % os.getpid()
os.makedirs(scratch + "/work")
try:
    check.cldr_ref.write(check.REPO, check.VERIF)
    spec = [j for j in registry.PROPS[pid].jobs if j.harness == hname][0]
    b = check.Build(spec.cfg, scratch, [hname]).codegen()
    job = check.Job(spec, b, scratch + "/work", "thorough")
    job.prepare()
    us = job.unwindset({})
    cmd = ["cbmc"] + [x for x in check.CBMC_BASE if x != "--slice-formula"] + ["--unwind", str(spec.unwind), "--unwindset",
           ",".join("%s:%d" % kv for kv in sorted(us.items())), "--show-goto-symex-steps", "--program-only", job.goto]
    out = scratch + "/steps.txt"
    with open(out, "w") as fh:
        try:
            subprocess.run(cmd, stdout=fh, stderr=subprocess.STDOUT, timeout=int(os.environ.get("PROF_TIMEOUT", "1500")))
        except subprocess.TimeoutExpired:
            print("(symex cut off at the time limit; counts are for the prefix executed)")
    pm = {}
    try:
        pm = json.load(open(job.meta["goto_file"].replace(".symtab.out", ".pretty_name_map.json")))
    except Exception:
        pass
    cnt = collections.Counter(); cur = "?"; stack = []; ins = False
    with open(out, errors="replace") as f:
        for line in f:
            if line.startswith("Call stack:"):
                ins = True; stack = []; continue
            if ins:
                if line.strip() == "":
                    ins = False
                    if stack: cur = stack[-1]
                    continue
                stack.append(line.strip().split(" location number")[0]); continue
            if line.startswith("[Guard size"):
                cnt[cur] += 1
    print("total", sum(cnt.values()))
    for fn, c in cnt.most_common(int(os.environ.get("PROF_TOP", "45"))):
        p = pm.get(fn) if isinstance(pm, dict) else None
        print("%8d  %s" % (c, (p or fn)[:170]))
finally:
    shutil.rmtree(scratch, ignore_errors=True)
