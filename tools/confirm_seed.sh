#!/bin/bash
# developer aid: confirm a seeded change in a scratch worktree (never in /repo):
#   confirm_seed.sh <worktree> <patch.diff> <demo.rs> <crate-dir> [cargo feature args for the demo]
# prints CONFIRMED when: patch applies, baseline suite passes with it, demo fails with it and passes without it
wt="$1"; patch="$2"; demo="$3"; crate="$4"; shift 4
cd "$wt" || exit 3
git checkout -q -- . ; git clean -fdq -e target -e Cargo.lock
name=seeded_demo_$$
cp "$demo" "$crate/tests/$name.rs"
cargo test -p "$(basename $crate)" --test $name --offline "$@" > /tmp/confirm-$$-without.log 2>&1; without=$?
git apply "$patch" || { echo "PATCH-DOES-NOT-APPLY"; exit 3; }
cargo test -p "$(basename $crate)" --test $name --offline "$@" > /tmp/confirm-$$-with.log 2>&1; with=$?
rm -f "$crate/tests/$name.rs"
timeout 600 cargo test --workspace --no-fail-fast --offline > /tmp/confirm-$$-suite.log 2>&1; suite=$?
git checkout -q -- . ; git clean -fdq -e target -e Cargo.lock
echo "demo-without=$without demo-with=$with suite-with-change=$suite"
if [ $without -eq 0 ] && [ $with -ne 0 ] && [ $suite -eq 0 ]; then echo CONFIRMED; else echo NOT-CONFIRMED; fi
rm -f /tmp/confirm-$$-*.log
