#!/usr/bin/env python3
"""Developer aid: copy the verdicts of seeded/RESULTS.json into each seeded/<id>/meta.json (detected_by / checks_run)."""
import json, os, glob
V = os.path.dirname(os.path.dirname(os.path.abspath(__file__)))
res = json.load(open(os.path.join(V, "seeded", "RESULTS.json")))
by = {}
for r in res.values():
    by.setdefault(r["seed"], []).append(r)
for d in sorted(glob.glob(os.path.join(V, "seeded", "C*"))):
    sid = os.path.basename(d)
    p = os.path.join(d, "meta.json")
    m = json.load(open(p))
    runs = by.get(sid, [])
    m["checks_run"] = [{"check": "python3 tools/check.py %s --tier %s%s" % (r["prop"], r["tier"], (" (harnesses: %s)" % r["only"]) if r.get("only") else ""),
                        "via": "tools/seedrun.py (patch applied to a scratch worktree of /repo, same runner code)", "verdict": r["verdict"], "seconds": r["seconds"],
                        "counterexample": r.get("evidence", [])[-2:]} for r in runs]
    m["detected_by"] = sorted(set("%s:%s" % (r["prop"], r.get("only") or "all") for r in runs if r["verdict"] == "caught")) or None
    json.dump(m, open(p, "w"), indent=1)
print("updated")
