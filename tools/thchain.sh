#!/bin/bash
# developer aid: thorough-only harnesses of the given properties, one property after the other, no evidence
cd /verif || exit 3
for p in "$@"; do
  VERIF_MEM_GB=${EVMEM:-44} VERIF_JOBS=${EVJOBS:-8} VERIF_TIME_SCALE=${EVSCALE:-0.2} python3 tools/check.py "$p" --tier thorough --skip-quick --no-evidence > "/tmp/th_$p.log" 2>&1
  echo "$p exit $? $(date +%H:%M:%S)" >> /tmp/thchain.status
done
echo DONE >> /tmp/thchain.status
