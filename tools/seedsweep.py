#!/usr/bin/env python3
"""Developer aid: run the planned checks against every seeded change (tools/seedrun.py, isolated scratch
copies, several in parallel) and record which check catches which seed in seeded/RESULTS.json.
    tools/seedsweep.py [--jobs N] [--seeds C02a,C03b] [--tier quick]
"""
import argparse, json, os, subprocess, sys, time
from concurrent.futures import ThreadPoolExecutor
HERE = os.path.dirname(os.path.abspath(__file__)); VERIF = os.path.dirname(HERE)
PLAN = json.load(open(os.path.join(HERE, "seedplan.json")))
ap = argparse.ArgumentParser(); ap.add_argument("--jobs", type=int, default=3); ap.add_argument("--seeds", default=None)
a = ap.parse_args()
res_path = os.path.join(VERIF, "seeded", "RESULTS.json")
results = json.load(open(res_path)) if os.path.exists(res_path) else {}
todo = []
for seed, runs in PLAN.items():
    if a.seeds and seed not in a.seeds.split(","):
        continue
    for r in runs:
        todo.append((seed, r))
def one(x):
    seed, r = x
    env = dict(os.environ); env.setdefault("VERIF_JOBS", "4"); env.setdefault("VERIF_MEM_GB", "20")
    cmd = [sys.executable, os.path.join(HERE, "seedrun.py"), seed, r["prop"], "--tier", r.get("tier", "quick")]
    if r.get("only"): cmd += ["--only", r["only"]]
    t0 = time.time()
    p = subprocess.run(cmd, capture_output=True, text=True, env=env)
    out = p.stdout
    viol = [l for l in out.splitlines() if "violation in" in l or l.startswith("INPUT")]
    key = "%s|%s|%s|%s" % (seed, r["prop"], r.get("tier", "quick"), r.get("only") or "*")
    results[key] = {"seed": seed, "prop": r["prop"], "tier": r.get("tier", "quick"), "only": r.get("only"), "exit": p.returncode,
                    "verdict": {0: "missed", 1: "caught", 2: "inconclusive"}.get(p.returncode, "error"), "seconds": round(time.time() - t0),
                    "evidence": viol[:6], "tail": out.splitlines()[-12:] if p.returncode != 1 else []}
    json.dump(results, open(res_path, "w"), indent=1)
    print(key, results[key]["verdict"], results[key]["seconds"], "s", flush=True)
with ThreadPoolExecutor(max_workers=a.jobs) as ex:
    list(ex.map(one, todo))
