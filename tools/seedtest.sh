#!/bin/bash
# developer aid: apply a seeded change to /repo, run one check, undo the change.
#   tools/seedtest.sh <patch.diff> <PROP> [extra check.py args]
# The patch is never committed; /repo is restored even when the check fails.
set -u
patch="$1"; prop="$2"; shift 2
cd /repo || exit 3
if [ -n "$(git status --porcelain -uno)" ]; then echo "repo dirty, refusing"; exit 3; fi
git apply "$patch" || { echo "patch does not apply"; exit 3; }
trap 'git -C /repo checkout -- . ' EXIT
cd /verif && python3 tools/check.py "$prop" --no-evidence "$@"
rc=$?
echo "seedtest: check exit code $rc"
exit $rc
