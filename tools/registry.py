"""Which harnesses decide which property, in which tier, under which bounds.

Harness source: /verif/harness/src/cNN.rs.  Every bound named here is *checked*
(unwinding assertions stay on), so a wrong number shows up as an unwinding
failure, never as silent truncation.
"""
import os, sys
sys.path.insert(0, os.path.dirname(os.path.abspath(__file__)))
import presteps

UNWIND_CAP = 64

# (regex on the loop's pretty function name, bound) — first match wins; DESIGN 2.2
UNWIND_RULES = [
    (r"^memcmp$", 10),
    (r"tinystr::", 10),
    (r"core::slice::cmp|chaining_impl|equal_same_length|SlicePartialEq|SlicePartialOrd|SliceOrd", 10),
    (r"^(vh::)?spec::", 10),
    (r"^(vh::)?sym::", 10),
    (r"^(vh::)?k::bytes", 18),
    (r"binary_search", 15),
]

CFGS = {
    # harness crate with likelysubtags on (the configuration the facade crates' tests use)
    "std": {"crate": "harness", "features": ["likelysubtags"]},
    "nolikely": {"crate": "harness", "features": []},
    "serde": {"crate": "harness", "features": ["likelysubtags", "serde"]},
}
# C20: the same harness sources compiled against the facade crates under every feature subset
import itertools
FACADE_FEATURES = ["likelysubtags", "serde", "macros"]
FACADE_CFGS = []
for n_ in range(len(FACADE_FEATURES) + 1):
    for sub in itertools.combinations(FACADE_FEATURES, n_):
        name_ = "facade_" + ("_".join(x[:5] for x in sub) if sub else "none")
        CFGS[name_] = {"crate": "harness_facade", "features": list(sub)}
        FACADE_CFGS.append(name_)

GLOBAL_ASSUMPTIONS = [
    "Kani 0.68 / CBMC 6.11 / CaDiCaL are sound for the dev-profile MIR they are given (overflow checks on)",
    "allocation never fails (--no-malloc-may-fail)",
    "every loop bound is enforced by an unwinding assertion; results say nothing beyond the stated input bounds",
]


class J:
    def __init__(self, harness, tier="q", cfg="std", unwind=10, uw=None, cbmc=None, mem_gb=8, timeout_q=1800,
                 timeout_t=7200, stubs=None, desc="", weight=1, need_cover=True, trace=True):
        self.harness, self.tier, self.cfg, self.unwind = harness, tier, cfg, unwind
        self.uw, self.cbmc, self.mem_gb = uw, cbmc, mem_gb
        self.timeout_q, self.timeout_t, self.stubs, self.desc = timeout_q, timeout_t, stubs, desc
        self.weight, self.need_cover, self.trace = weight, need_cover, trace


class P:
    def __init__(self, jobs, bounds, outside, assumptions=None, pre=None):
        self.jobs, self.bounds, self.outside = jobs, bounds, outside
        self.assumptions = assumptions or []
        self.pre = pre or []


T9 = "one subtag = 9 bytes of storage, length 0..=9 symbolic, every byte 0x00-0xFF symbolic"

PROPS = {}


def mk(*ds):
    """merge unwind-rule dicts; rules are tried in order, so earlier (more specific) dicts win"""
    out = {}
    for d in ds:
        for k_, v_ in d.items():
            out.setdefault(k_, v_)
    return out

# CBMC-level pointer/bounds checks are redundant for safe Rust (Kani emits the Rust-level bounds and
# overflow assertions itself); dropped in the large functional harnesses to fit memory
NOPTR = ["--no-pointer-check", "--no-bounds-check"]
STR_STUBS = ["std::string::String::push_str", "std::string::String::push"]
INSREM = ["std::vec::Vec::insert", "std::vec::Vec::remove"]
EXT_STUBS = ["std::vec::Vec::push", "<[tinystr::TinyAsciiStr<8>]>::sort_unstable"]
PARSER_STUBS = ["std::vec::Vec::push", "<[unic_langid_impl::subtags::Variant]>::sort_unstable", "std::vec::Vec::into_boxed_slice"]
VAL_UW = {r"h::|c\d\d::": 6, r"SlicePartialEq<unic_langid_impl::subtags::Variant>|SlicePartialOrd<unic_langid_impl::subtags::Variant>|SliceOrd<unic_langid_impl::subtags::Variant>|<\[unic_langid_impl::subtags::Variant\]": 4, r"variants_eq|variants_cmp": 6}
VEC_STUBS = ["<[unic_langid_impl::subtags::Variant]>::sort_unstable", "std::vec::Vec::into_boxed_slice", "<[unic_langid_impl::subtags::Variant]>::to_vec"]
VEC_UW = {r"stubs::|sort_unstable|to_vec|dedup": 5, r"h::|c\d\d::": 6, r"insert_sorted_unique": 5}
FMT_UW = {r"tinystr::": 10, r"^memcmp$": 30, r"stubs::push_str|String::push_str": 10, r"core::fmt|fmt::Write|String|\bstr::|Display": 8, r"memcpy|memmove": 24}
TAB_UW = {r"c18::": 10, r"contains|Iter<u": 40, r"txt_len": 10}
LK_UW = {r"lk::find": 15, r"contains|Iter<u": 40, r"c06::|c14::": 6}
FMT2 = {r"tinystr::": 10, r"bytes_are|is_canonical_langid": 50, r"stubs::push_str|String::push_str": 10, r"core::fmt|fmt::Write|String|\bstr::|Display|write_str|write_char|push_str|extend": 10, r"memcpy|memmove": 24, r"bytes_are|is_canonical_langid": 50, r"write_langid|write_txt": 10, r"Tok::lit": 10, r"c04::|c05::": 8}
BIG = dict(mem_gb=44, cbmc=["--no-pointer-check", "--no-bounds-check"], trace=False, timeout_t=6000, weight=6)

PROPS["C15"] = P(
    jobs=[
        J("c15_language_exact", desc="Language::from_bytes vs UTS#35 production on " + T9),
        J("c15_script_exact", desc="Script::from_bytes on " + T9),
        J("c15_region_exact", desc="Region::from_bytes on " + T9),
        J("c15_variant_exact", desc="Variant::from_bytes on " + T9),
    ],
    bounds="every byte string of length 0..=9 per subtag constructor (all 256 values per byte)",
    outside="subtags longer than 9 bytes (the only length-dependent code is `len > N` in TinyAsciiStr::from_bytes_inner)",
)

# loops of the repo's own parser and of std iterator adaptors: one iteration per token (+1 to leave)
def tok_uw(k):
    return {r"parse_language_identifier_from_iter": k + 2, r"array::|from_fn|try_from_fn|iter_next_unchecked|drain_array|Copied|slice::Iter<": k + 2,
            r"stubs::(sort_unstable|push|to_vec)": 6, r"dedup": k + 2, r"h::": 6}

def ext_uw(k):
    # byte loops over one subtag (<= 9 bytes) first: their names also contain `slice::Iter<`
    d = {r"is_type|is_attribute|is_language_subtag|Iter<'_, u8>": 10, r"try_from_iter": k + 2, r"btree": 3, r"dedup": k + 2}
    for k_, v_ in tok_uw(k).items():
        d.setdefault(k_, v_)
    return d
TLIST_STUBS = EXT_STUBS + ["<[unic_langid_impl::subtags::Variant]>::sort_unstable", "std::vec::Vec::into_boxed_slice"]
def xuw(k):
    # harness-side comparison loops first: their pretty names carry the iterator types of the getters
    # (`slice::Iter<..>`), which the std-iterator rule of tok_uw would otherwise claim with a too-small bound
    d = {r"(^|[^:\w])(vh::)?(h::iter_is|h::[utp]list_is|xspec::|c03::count_t?keys)|insert_sorted": max(k + 4, 6), r"spec::infos|toks_len|toks9|h::slices": k + 2}
    for k_, v_ in ext_uw(k).items():
        d.setdefault(k_, v_)
    return d
C10_UW = {r"stubs::": 6, r"c10::|set_contains|set_remove|insert_sorted|iter_is|ulist_is|plist_is": 6, r"binary_search": 4, r"Vec::<.*>::(insert|remove)|contains|memmove|memcpy": 6, r"btree": 3, r"dedup": 5}
def glue_uw(n, k):
    return mk({r"Split|position|split_ref|c02::|c13::|c03::|c09::|spec::infos": n + 2}, ext_uw(k))

PROPS["C02"] = P(
    jobs=[
        J("c02_tokens_1", unwind=6, uw=tok_uw(1), stubs=PARSER_STUBS, desc="LanguageIdentifier::try_from_iter(.., false) on 1 x T9 vs reference recogniser/canonicaliser"),
        J("c02_tokens_2", unwind=6, uw=tok_uw(2), stubs=PARSER_STUBS, desc="2 x T9", weight=2),
        J("c02_tokens_3", unwind=6, uw=tok_uw(3), stubs=PARSER_STUBS, desc="3 x T9", weight=3),
        J("c02_bytes_len0", unwind=4, uw=mk({r"Split|position|split_ref|c02::": 3}, tok_uw(1)), stubs=PARSER_STUBS, desc="LanguageIdentifier::from_bytes on the empty string"),
        J("c02_bytes_len1", unwind=4, uw=mk({r"Split|position|split_ref|c02::": 3}, tok_uw(1)), stubs=PARSER_STUBS, desc="from_bytes on every 1-byte string vs reference split + recogniser"),
        J("c02_bytes_len2", tier="t", unwind=5, uw=mk({r"Split|position|split_ref|c02::": 4}, tok_uw(2)), stubs=PARSER_STUBS, desc="every 2-byte string", weight=2, mem_gb=16),
        J("c02_bytes_len3", unwind=6, uw=mk({r"Split|position|split_ref|c02::": 5}, tok_uw(3)), stubs=PARSER_STUBS, desc="every 3-byte string", tier="t", weight=4, mem_gb=30),
        J("c02_bytes_len4", tier="x", unwind=7, uw=mk({r"Split|position|split_ref|c02::": 6}, tok_uw(4)), stubs=PARSER_STUBS, desc="every 4-byte string", weight=5, mem_gb=30),
        J("c02_sep_en_us", tier="t", unwind=7, uw=mk({r"Split|position|split_ref|c02::|spec::infos": 7}, tok_uw(1)), stubs=PARSER_STUBS, desc="from_bytes on 'en?US' with ? any byte: exactly '-' and '_' separate", weight=2, mem_gb=16),
        J("c02_sep_en_latn_us_macos", tier="x", unwind=18, uw=mk({r"Split|position|split_ref|c02::|spec::infos": 18}, tok_uw(3)), stubs=PARSER_STUBS, desc="from_bytes on 'en?Latn?US?macos', each ? any byte (2^24 inputs)", weight=3, mem_gb=30, cbmc=NOPTR),
        J("c02_bytes_3", tier="x", unwind=7, uw=mk({r"Split|position|split_ref|c02::": 6}, tok_uw(4)), stubs=PARSER_STUBS, desc="LanguageIdentifier::from_bytes on every byte string of length <= 3 vs reference split + recogniser", weight=3),
        J("c02_bytes_4", tier="x", unwind=8, uw=mk({r"Split|position|split_ref|c02::": 7}, tok_uw(5)), stubs=PARSER_STUBS, desc="every byte string of length <= 4", weight=4, mem_gb=16),
        J("c02_tokens_4", tier="t", unwind=6, uw=tok_uw(4), stubs=PARSER_STUBS, desc="4 x T9", weight=4, mem_gb=12),
    ],
    bounds="token level: 1..3 (quick) / 1..4 (thorough) subtags, each " + T9 + "; byte level through from_bytes: the empty string and every 1-byte string (quick), every 2-, 3-, 4-byte string and the separator frames 'en?US', 'en?Latn?US?macos' with every ? an arbitrary byte (thorough)",
    outside="identifiers with more than 4 subtags; subtags longer than 9 bytes; the push/sort/into_boxed_slice models of std (DESIGN 2.3)",
)

# value-level harnesses: slices of <= 2 variants (bound 4 = elements + 2), fixed 8-byte texts
PROPS["C11"] = P(
    jobs=[
        J("c11_language_matches", unwind=6, desc="Language::matches on two symbolic valid languages (incl. und) x 4 flag pairs"),
        J("c11_langid_formula_v1", unwind=6, uw=VAL_UW, desc="LanguageIdentifier::matches == formula: both sides any language/script?/region?/<=1 variant, flags symbolic", weight=2),
        J("c11_langid_laws_v1", unwind=6, uw=VAL_UW, desc="equality without flags, monotone in each flag, symmetric with swapped flags, reflexive (<=1 variant)", weight=3, mem_gb=12),
        J("c11_locale_matches", unwind=6, uw=mk(VAL_UW, {r"binary_search": 4, r"Vec::<.*>::(insert|remove)|memmove|memcpy": 6, r"btree": 3}), stubs=EXT_STUBS, desc="Locale::matches with optional private tag / -u- attribute per side (arguments T9), <=1 variant; LanguageIdentifier vs &Locale", weight=3, mem_gb=12, cbmc=NOPTR),
        J("c11_langid_formula_v2", tier="t", unwind=6, uw=VAL_UW, desc="formula with <=2 variants per side", weight=3, mem_gb=12),
    ],
    bounds="both operands: any valid language (or und), optional script, optional region, 0..1 (quick) / 0..2 (thorough) variants; all four flag combinations",
    outside="identifiers with more than 2 variants",
)

PROPS["C17"] = P(
    jobs=[
        J("c17_language_raw", unwind=6, desc="Language <-> Option<u64>: round trip, text intact, injective; all valid languages incl. und"),
        J("c17_script_raw", unwind=6, desc="Script <-> u32"),
        J("c17_region_raw", unwind=6, desc="Region <-> u32"),
        J("c17_variant_raw", unwind=6, desc="Variant <-> u64"),
        J("c17_langid_parts_roundtrip", unwind=6, uw=VEC_UW, stubs=VEC_STUBS, desc="from_parts(into_parts(x)) == x, x any langid with 0..2 variants", weight=2),
        J("c17_from_parts_v0", unwind=6, uw=VEC_UW, stubs=VEC_STUBS, desc="from_parts with no variants == reference value"),
        J("c17_from_parts_v2", unwind=6, uw=VEC_UW, stubs=VEC_STUBS, desc="from_parts with 2 variants in any order / equal == reference canonical value", weight=2),
        J("c17_locale_parts_noext", unwind=6, uw=mk(VEC_UW, FMT2, glue_uw(1, 1)), stubs=VEC_STUBS + STR_STUBS + EXT_STUBS, desc="Locale without extensions (any id, <=1 variant): into_parts -> empty extension string -> re-parse -> from_parts == original", weight=3, mem_gb=16, cbmc=NOPTR),
        J("c17_extmap_leading_sep", unwind=9, uw=glue_uw(7, 2), stubs=TLIST_STUBS, desc="ExtensionsMap::from_bytes tolerates the leading separator of its own Display output (concrete '-u-attr')", weight=2, mem_gb=12, cbmc=NOPTR),
        J("c17_from_parts_v3", unwind=6, uw=VEC_UW, stubs=VEC_STUBS, desc="3 variants, any order, duplicates allowed", weight=3),
    ],
    bounds="every valid subtag of each type (all T9 inputs the checked constructor accepts); language identifiers with 0..2 variants (round trip) and from_parts with 0, 2 (quick) or 3 (thorough) variants in arbitrary order with duplicates",
    outside="Locale::into_parts/from_parts with an extension string (see C05); more than 3 variants; std models of sort_unstable/to_vec/into_boxed_slice",
)

PROPS["C12"] = P(
    jobs=[
        J("c12_langid_eq_ord_v1", unwind=6, uw=VAL_UW, desc="==, cmp, partial_cmp vs field-by-field reference, antisymmetry; <=1 variant per side", weight=2),
        J("c12_langid_eq_ord_v2", tier="t", unwind=6, uw=VAL_UW, desc="as above, <=2 variants per side", weight=3, mem_gb=12),
        J("c12_langid_hash", unwind=6, uw=mk({r"Fnv|hash": 10}, VAL_UW), desc="equal values hash equally (fixed rotate-xor hasher), <=2 variants", weight=2),
        J("c12_routes_no_variants", unwind=6, uw=mk({r"Fnv|hash": 24}, VEC_UW, VAL_UW), stubs=VEC_STUBS, desc="set_variants(&[]) / clear_variants / from_parts(.., &[]) / never set: ==, same hash, Equal; any langid with <=2 variants", weight=2, mem_gb=24),
        J("c12_route_set_empty_over_one", unwind=6, uw=mk({r"Fnv|hash": 24}, VEC_UW, VAL_UW), stubs=VEC_STUBS, desc="language-region identifier with exactly one variant: set_variants(&[]) == never had variants (==, Equal, same hash)", weight=2, mem_gb=16),
        J("c12_eq_str_near_misses", unwind=8, uw=mk({r"Split|position|c12::": 8}, tok_uw(2), FMT_UW), stubs=STR_STUBS + PARSER_STUBS, desc="the concrete identifier en-US against 9 near-miss strings (longer, shorter, other case / separator, padded, empty): enumerated guard", weight=1),
        J("c12_ulist_eq_3_3", tier="x", unwind=6, uw=mk({r"Fnv|hash": 10, r"umodel_eq|c12::": 6}, xuw(2)), stubs=EXT_STUBS, desc="two -u- lists parsed from [S(3),S(3)]: == iff same canonical content, Equal iff ==, antisymmetric, equal => same hash", weight=4, mem_gb=24, cbmc=NOPTR),
        J("c12_ulist_eq_2_3", tier="x", unwind=6, uw=mk({r"Fnv|hash": 10, r"umodel_eq|c12::": 6}, xuw(2)), stubs=EXT_STUBS, desc="two -u- lists parsed from [S(2),S(3)] (one keyword each)", weight=5, mem_gb=40, cbmc=NOPTR, timeout_t=5400),
        J("c12_routes_ext", unwind=6, uw=mk({r"Fnv|hash": 10}, C10_UW), stubs=INSREM + EXT_STUBS, desc="attribute / private tag added then removed == never added: ==, same hash, Equal", weight=2, mem_gb=12, cbmc=NOPTR),
        J("c12_routes_keyword", tier="x", unwind=6, uw=mk({r"Fnv|hash": 10}, C10_UW), stubs=EXT_STUBS, desc="keyword set then removed == never set: ==, same hash, Equal", weight=3, mem_gb=30, cbmc=NOPTR),
        J("c12_langid_ord_transitive", unwind=6, uw=VAL_UW, desc="cmp transitive on symbolic triples, <=1 variant", weight=3, mem_gb=12),
        J("c12_langid_eq_iff_string_eq", unwind=6, uw=mk(FMT_UW, VAL_UW), stubs=STR_STUBS, desc="x == y iff to_string equal, real Display/core::fmt, <=1 variant", weight=3, mem_gb=12),
        J("c12_langid_eq_str", unwind=6, uw=mk({r"c12::c12_langid_eq_str": 18, r"write_langid|write_txt": 10}, VAL_UW, FMT_UW), stubs=STR_STUBS, desc="li == &str iff str is the canonical text; str = any ASCII string <= 16 bytes", weight=3, mem_gb=24),
    ],
    bounds="pairs/triples of language identifiers: any valid language (or und), optional script, optional region, 0..1 (quick) / 0..2 (thorough) variants; &str operands: any ASCII string of <= 16 bytes",
    outside="==/Ord/Hash of extension lists that carry keywords or tfields (two values that come out of the parser cannot be compared with the derived == under CBMC, DESIGN 10; attribute / private-tag routes are decided), Locale ordering, identifiers with more than 2 variants, strings longer than 16 bytes",
)
PROPS["C13"] = P(
    jobs=[
        J("c13_superset_1", unwind=6, uw=tok_uw(1), stubs=PARSER_STUBS, desc="1 x T9 through the strict and the permissive token-level entry"),
        J("c13_superset_2", unwind=6, uw=tok_uw(2), stubs=PARSER_STUBS, desc="2 x T9", weight=2),
        J("c13_superset_3", tier="t", unwind=6, uw=tok_uw(3), stubs=PARSER_STUBS, desc="3 x T9", weight=3, mem_gb=30),
        J("c13_permissive_1", unwind=6, uw=tok_uw(1), stubs=PARSER_STUBS, desc="permissive entry (allow_extension=true, the one parse_locale calls) on 1 x T9 == reference permissive parse (identifier and number of subtags left)"),
        J("c13_permissive_2", unwind=6, uw=tok_uw(2), stubs=PARSER_STUBS, desc="2 x T9", weight=2),
        J("c13_permissive_3", unwind=6, uw=tok_uw(3), stubs=PARSER_STUBS, desc="3 x T9", weight=3, mem_gb=12),
        J("c13_permissive_4", tier="t", unwind=6, uw=tok_uw(4), stubs=PARSER_STUBS, desc="4 x T9", weight=4, mem_gb=16),
        J("c13_ref_lemma_2", unwind=6, uw=tok_uw(2), desc="reference only, 2 x T9: permissive parse == strict parse of the consumed prefix; strict success => permissive success with nothing left"),
        J("c13_ref_lemma_3", unwind=6, uw=tok_uw(3), desc="reference only, 3 x T9"),
        J("c13_ref_lemma_4", unwind=6, uw=tok_uw(4), desc="reference only, 4 x T9"),
        J("c13_glue_cut_len1", tier="t", unwind=4, uw=mk({r"Split|position|c13::": 3}, tok_uw(1)), stubs=PARSER_STUBS + ["unic_locale_impl::extensions::ExtensionsMap::try_from_iter"], desc="Locale::from_bytes vs LanguageIdentifier::from_bytes on every 1-byte string, the real parse_locale glue with the extension parser cut for non-exhausted iterators", weight=2, mem_gb=16),
        J("c13_glue_cut_len2", tier="x", unwind=5, uw=mk({r"Split|position|c13::": 4}, tok_uw(2)), stubs=PARSER_STUBS + ["unic_locale_impl::extensions::ExtensionsMap::try_from_iter"], desc="same on every 2-byte string (every two-letter language)", weight=3, mem_gb=40),
        J("c13_glue_cut_len3", tier="x", unwind=6, uw=mk({r"Split|position|c13::": 5}, tok_uw(3)), stubs=PARSER_STUBS + ["unic_locale_impl::extensions::ExtensionsMap::try_from_iter"], desc="same on every 3-byte string", weight=4, mem_gb=30),
        J("c13_locale_glue_lang2", tier="x", unwind=5, uw=glue_uw(2, 1), stubs=TLIST_STUBS, desc="Locale::from_bytes vs LanguageIdentifier::from_bytes on every 2-byte string without separator (symbolic language through the real parse_locale)", weight=3, mem_gb=30, cbmc=NOPTR),
        J("c13_locale_glue_lang3", tier="x", unwind=6, uw=glue_uw(3, 1), stubs=TLIST_STUBS, desc="same on every 3-byte string without separator", weight=3, mem_gb=16, cbmc=NOPTR),
        J("c13_locale_glue_lang2_us", tier="x", unwind=8, uw=glue_uw(5, 2), stubs=TLIST_STUBS, desc="same on '??-US', ?? any two non-separator bytes", weight=4, mem_gb=24, cbmc=NOPTR),
        J("c13_prefix_2", tier="x", unwind=6, uw=tok_uw(2), stubs=PARSER_STUBS, desc="2 x T9: the permissive entry's result equals the strict parse of the consumed prefix", weight=2, mem_gb=30),
        J("c13_prefix_3", tier="x", unwind=6, uw=tok_uw(3), stubs=PARSER_STUBS, desc="3 x T9", weight=3, mem_gb=40),
        J("c13_extmap_exhausted", unwind=6, uw=ext_uw(1), stubs=EXT_STUBS, desc="ExtensionsMap::try_from_iter on an exhausted iterator is Ok(empty)"),
        J("c13_locale_glue_en_us", tier="x", unwind=8, uw=glue_uw(5, 2), stubs=TLIST_STUBS, desc="Locale::from_bytes vs LanguageIdentifier::from_bytes on 'en?US', ? any byte", weight=3, mem_gb=30, cbmc=NOPTR),
        J("c13_locale_glue_en_x_ab", tier="x", unwind=10, uw=glue_uw(7, 3), stubs=TLIST_STUBS, desc="same on 'en?x?ab'", weight=4, mem_gb=24, cbmc=NOPTR),
        J("c13_conversions", unwind=6, uw=VAL_UW, desc="From/Into/AsRef between LanguageIdentifier and Locale, any langid with <=2 variants"),
    ],
    bounds="token level, each subtag " + T9 + ": both real entries in one query on 1..2 subtags (quick) / 3 (thorough, first clause); decomposed through the reference on 1..3 subtags (quick) / 4 (thorough): real permissive entry == reference permissive parse, reference lemma (permissive == strict parse of the consumed prefix; strict success => permissive success with nothing left) on 2..4 subtags, C02 for the strict entry; extension parser on an exhausted iterator; conversions: any langid with <= 2 variants. thorough: both real from_bytes on every 1-byte string with the extension parser cut for non-exhausted iterators (the real parse_locale glue on extension-free inputs)",
    outside="inputs with more than 4 subtags; subtags longer than 9 bytes; the three-line glue of parse_locale (language id, then extensions on the same iterator) is only exercised by the thorough byte-level frames - a quick run decides the two token-level entries it calls, not the glue itself; byte-level glue on strings of 2+ bytes was measured out of reach",
)

PROPS["C18"] = P(
    jobs=[
        J("c18_lang_only", unwind=10, uw=TAB_UW, desc="LANG_ONLY[i] for symbolic i over all 7143 rows: key/value == CLDR, well formed, strictly increasing (columns flattened from the compiled static by rustc const-eval, row index symbolic)", weight=3, mem_gb=16, cbmc=["--no-pointer-check"], trace=False),
        J("c18_lang_only_wellformed", unwind=10, uw=TAB_UW, desc="every LANG_ONLY reference row decodes through the checked constructors and re-encodes to the same integers", weight=4, mem_gb=24, cbmc=["--no-pointer-check"], trace=False),
        J("c18_lang_region", unwind=10, uw=TAB_UW, desc="LANG_REGION, symbolic row index over all 62 rows"),
        J("c18_lang_script", unwind=10, uw=TAB_UW, desc="LANG_SCRIPT, all 378 rows"),
        J("c18_script_region", unwind=10, uw=TAB_UW, desc="SCRIPT_REGION, all 215 rows"),
        J("c18_script_only", unwind=10, uw=TAB_UW, desc="SCRIPT_ONLY, all 163 rows"),
        J("c18_region_only", unwind=10, uw=TAB_UW, desc="REGION_ONLY, all 258 rows"),
        J("c18_layout_tables", unwind=10, uw=TAB_UW, desc="4 direction tables == sets derived from the 710 layout files (both inclusions by symbolic index)"),
        J("c18_cldr_version", unwind=10, uw=TAB_UW, desc="CLDR_VERSION == _cldrVersion of the JSON"),
    ],
    bounds="every row of all six likely-subtags tables and all four direction tables (symbolic row index, no sampling); reference re-derived from the JSON files on every run by tools/cldr_ref.py",
    outside="re-running the repository's generator binaries and diffing their output (a concrete execution, not a solver query); the JSON parser of tools/cldr_ref.py is trusted",
)

PROPS["C06"] = P(
    jobs=[
        J("c06_kv_region_only", unwind=6, uw=LK_UW, desc="maximize(und,-,K) == V for symbolic row of REGION_ONLY (all 258)"),
        J("c06_kv_script_only", unwind=6, uw=LK_UW, desc="all 163 SCRIPT_ONLY keys"),
        J("c06_kv_script_region", unwind=6, uw=LK_UW, desc="all 215 SCRIPT_REGION keys"),
        J("c06_kv_lang_region", unwind=6, uw=LK_UW, desc="all 62 LANG_REGION keys"),
        J("c06_kv_lang_script", unwind=6, uw=LK_UW, desc="all 378 LANG_SCRIPT keys"),
        J("c06_kv_lang_only", tier="t", unwind=6, uw=LK_UW, desc="all 7142 LANG_ONLY keys except bare und", weight=5, mem_gb=40, cbmc=["--no-pointer-check"], trace=False, timeout_t=5400),
        J("c06_cascade_und", unwind=6, uw=LK_UW, desc="arbitrary (und, script?, region?) vs reference cascade over the three und tables", weight=2),
        J("c06_cascade_zh", unwind=6, uw=LK_UW, desc="(zh, script?, region?) vs reference cascade: concrete language with language-region and language-script entries", weight=2),
        J("c06_cascade_sr", unwind=6, uw=LK_UW, desc="(sr, script?, region?) vs reference cascade", weight=2),
        J("c06_cascade_unknown_qaa", unwind=6, uw=LK_UW, desc="(qaa = a language without CLDR entry, script?, region?): unchanged or a fallback that keeps the given subtags", weight=2),
        J("c06_cascade_lang", tier="x", unwind=6, uw=LK_UW, desc="arbitrary (language, script?, region?) vs reference cascade incl. the 7143-row table", weight=5, mem_gb=40, cbmc=["--no-pointer-check"], trace=False, timeout_t=5400),
        J("c06_wrapper_und", unwind=6, uw=mk(VAL_UW, LK_UW), desc="LanguageIdentifier::maximize bool + write-back, und language, <=1 variant", weight=2),
    ],
    bounds="K->V: every row of the five small tables (quick) and all 7142 keys of the language-only table (thorough) by symbolic row index; cascade: every valid (script?, region?) with und language and with the concrete languages zh, sr and qaa (unknown to CLDR)",
    outside="the cascade for an arbitrary symbolic language (language-region / language-script / language-only lookups and the reference's own search in one query: no result in 20 min; kept for reference) - for symbolic languages only the language-only K->V clause is decided (thorough); bare 'und' key; UTS #35 fallbacks the library does not implement are accepted either way (property text)",
    assumptions=["reference tables are re-derived from data/likelySubtags.json by tools/cldr_ref.py on every run; C18 decides that the compiled tables equal them"],
)
PROPS["C07"] = P(
    jobs=[
        J("c07_laws_und", unwind=6, uw=LK_UW, desc="kept subtags, all three filled, second maximize is None; arbitrary (und, script?, region?)"),
        J("c07_laws_zh", unwind=6, uw=LK_UW, desc="the same laws for the concrete language zh, every valid (script?, region?)", weight=2),
        J("c07_laws_unknown_qaa", unwind=6, uw=LK_UW, desc="same for qaa, a language without CLDR entry (must never be replaced by a table language)", weight=2),
        J("c07_laws_lang", tier="t", unwind=6, uw=LK_UW, desc="same for arbitrary non-empty language (touches the 7143-row table)", weight=5, mem_gb=40, cbmc=["--no-pointer-check"], trace=False, timeout_t=5400),
        J("c07_full_is_fixpoint", tier="t", unwind=6, uw=LK_UW, desc="language+script+region all present => maximize is None / false / unchanged (closes idempotence); the language's emptiness is a niche value of its first byte, so CBMC also explores the table branch", weight=5, mem_gb=40, cbmc=["--no-pointer-check"], trace=False, timeout_t=5400),
        J("c07_wrapper_und", unwind=6, uw=mk(VAL_UW, LK_UW), desc="LanguageIdentifier::maximize: variants untouched, bool<=>changed, false=>unchanged, idempotent; und language, <=2 variants", weight=3, mem_gb=12),
    ],
    bounds="every valid (script?, region?) with und language and with the concrete languages zh and qaa (unknown to CLDR) ; thorough adds: the same laws for every valid (language, script?, region?) and 'a triple with all three present is a fixed point' (which closes idempotence); wrapper with 0..2 variants",
    outside="in the quick tier symbolic languages are not covered (the thorough tier decides the add-only laws and the fixed-point clause for every valid language: 7143-row table with a symbolic key); Locale extensions attached to the identifier (Locale.id is a plain LanguageIdentifier field; extension state is not reachable from LanguageIdentifier::maximize)",
)
PROPS["C14"] = P(
    jobs=[
        J("c14_rows_direct", unwind=6, uw=LK_UW, desc="symbolic row over the CLDR locale directories whose answer needs no likely script"),
        J("c14_rows_direct", cfg="nolikely", unwind=6, uw=LK_UW, desc="same rows, built without the likelysubtags feature"),
        J("c14_rows_likely", tier="t", unwind=6, uw=LK_UW, desc="script-less rows of RTL-listed languages, likelysubtags on (7143-row table)", weight=5, mem_gb=40, cbmc=["--no-pointer-check"], trace=False, timeout_t=5400),
        J("c14_rows_likely", cfg="nolikely", unwind=6, uw=LK_UW, desc="same rows without likelysubtags: may differ only for multi-direction languages"),
        J("c14_script_decides", tier="t", unwind=6, uw=mk(VAL_UW, LK_UW), desc="arbitrary identifier with <=1 variant: listed script decides; unlisted script + non-RTL language => LTR; variants irrelevant (likelysubtags on: the RTL-language branch drags in the 7143-row table)", weight=5, mem_gb=40, cbmc=["--no-pointer-check"], trace=False, timeout_t=5400),
        J("c14_script_decides", cfg="nolikely", unwind=6, uw=mk(VAL_UW, LK_UW), desc="same, without likelysubtags", weight=2),
    ],
    bounds="all 709 non-root CLDR locale directories by symbolic row index in both feature configurations; arbitrary valid (language, script?, region?, <=1 variant) for the script/language clauses",
    outside="arbitrary identifiers of RTL-listed languages without a listed script (their answer is defined only through the rows); with likelysubtags on, the script-less rows of RTL-listed languages and the arbitrary-identifier clauses reach the 7143-row table and are thorough-tier; the quick tier decides them in the configuration without likelysubtags",
)

def uf(name, lens, tier="q", **kw):
    kw.setdefault("mem_gb", 12)
    kw.setdefault("cbmc", NOPTR)
    return J(name, tier=tier, unwind=6, uw=xuw(len(lens)), stubs=EXT_STUBS, desc="-u- body, subtag lengths %s, all contents symbolic" % lens, **kw)
def tf(name, lens, tier="q", **kw):
    kw.setdefault("mem_gb", 30)
    kw.setdefault("cbmc", NOPTR)
    return J(name, tier=tier, unwind=6, uw=xuw(len(lens)), stubs=TLIST_STUBS, desc="-t- body, subtag lengths %s, all contents symbolic" % lens, **kw)
def tk(name, k, tier="q", t=True, **kw):
    kw.setdefault("mem_gb", 16)
    kw.setdefault("cbmc", NOPTR)
    return J(name, tier=tier, unwind=6, uw=mk({r"frame_toks": k + 2}, xuw(k)), stubs=TLIST_STUBS if t else EXT_STUBS, desc="%s body on the frame %s: concrete key subtags (lower/upper case as written), the other subtags of the given length with all contents symbolic" % ("-t-" if t else "-u-", name[7:]), weight=3, **kw)
def mf(name, k, tier="q", **kw):
    kw.setdefault("mem_gb", 30)
    kw.setdefault("cbmc", NOPTR)
    return J(name, tier=tier, unwind=6, uw=mk({r"parse_map|frame_toks": k + 2}, xuw(k)), stubs=TLIST_STUBS, desc="whole extension map on the composition frame %s (singletons in symbolic case, other subtags of the given length with all contents symbolic) vs three-zone oracle" % name[8:], weight=4, **kw)
PROPS["C03"] = P(
    jobs=[
        J("c03_dispatch_1", unwind=6, uw=xuw(1), stubs=EXT_STUBS, desc="ExtensionsMap::try_from_iter on one fully symbolic subtag vs reference dispatcher"),
        uf("c03_u_3", [3]), uf("c03_u_2", [2]), uf("c03_u_2_3", [2, 3]), uf("c03_u_3_3", [3, 3]), uf("c03_u_8_2_4", [8, 2, 4]),
        uf("c03_u_2_4_1", [2, 4, 1]), uf("c03_u_2_3_9", [2, 3, 9]), uf("c03_u_3_0", [3, 0]), uf("c03_u_1", [1]), uf("c03_u_9", [9]),
        uf("c03_u_4", [4]), uf("c03_u_4_2_4", [4, 2, 4]), uf("c03_u_5_3", [5, 3]),
        uf("c03_u_2_2", [2, 2], tier="x"), uf("c03_u_2_3_2_3", [2, 3, 2, 3], tier="x"),
        tf("c03_t_2", [2], tier="x"), tf("c03_t_2_3", [2, 3], tier="x"), tf("c03_t_3", [3], mem_gb=16), tf("c03_t_3_3", [3, 3], tier="x", mem_gb=24), tf("c03_t_3_4", [3, 4], tier="x", mem_gb=24), tf("c03_t_8_3", [8, 3], tier="x", mem_gb=24), tf("c03_t_3_1", [3, 1], tier="x", mem_gb=24), tf("c03_t_2_3_1", [2, 3, 1], tier="x", mem_gb=44, trace=False), tf("c03_t_2_2_3", [2, 2, 3], tier="x"),
        tf("c03_t_2_5_2", [2, 5, 2], tier="x", mem_gb=44, trace=False), tf("c03_t_2_3_2_3", [2, 3, 2, 3], tier="x"),
        tk("c03_tk_h0_hybrid_sing", 3), tk("c03_tk_en_de", 2), tk("c03_tk_en_us_de", 3), tk("c03_tk_en_us_3", 3, tier="x"), tk("c03_tk_h0_3", 2), tk("c03_tk_h0_3_1", 3), tk("c03_tk_h0_3_9", 3), tk("c03_tk_h0_4_5", 3), tk("c03_tk_h0_3_k0_4", 4, tier="x"), tk("c03_tk_en_5_2", 3, tier="x"), tk("c03_tk_en_h0_3", 3),
        tk("c03_uk_ca_3", 2, t=False), tk("c03_uk_ca_4_1", 3, t=False), tk("c03_uk_3_ca_4", 3, t=False), tk("c03_uk_nu_3_ca_4", 4, t=False, tier="x", mem_gb=30),
        mf("c03_mapk_u_foo_u_bar", 4, tier="x", need_cover=False), mf("c03_mapk_u_foo_x_a", 4, tier="x", need_cover=False), mf("c03_map_u3_u3", 4, tier="x"), mf("c03_map_u3_x3", 4, tier="x"), mf("c03_map_t2_3_u3", 5, tier="x"), mf("c03_map_u3_t2", 4, tier="x"), mf("c03_map_t2_t2", 4, tier="x"), mf("c03_map_u2_3_t2_3_x3", 8, tier="x"),
        J("c03_x_1", unwind=6, uw=xuw(1), stubs=EXT_STUBS, desc="-x- body, 1 x T9"),
        J("c03_x_2", unwind=6, uw=xuw(2), stubs=EXT_STUBS, desc="-x- body, 2 x T9"),
        J("c03_x_3", unwind=6, uw=xuw(3), stubs=EXT_STUBS, desc="-x- body, 3 x T9"),
    ],
    bounds='dispatcher on one fully symbolic subtag (0..9 arbitrary bytes); -u- body on the length-profiled frames [3] [2] [2,3] [3,3] [8,2,4] [2,4,1] [2,3,9] [3,0] [1] [9] [4] [4,2,4] [5,3] (lengths concrete, every byte symbolic) and the concrete-key frames [ca,3] [CA,4,1] [3,ca,4]; -t- body on [3] (any tlang-shaped subtag) and on frames with concrete keys and symbolic values / trailing subtags: [h0,3] [h0,3,1] [h0,3,9] [H0,4,5] [en,h0,3], plus the concrete frames [h0,hybrid,u|U] (a field followed by a singleton), [en,de], [en,US,de] (second tlang); -x- body on 1..3 fully symbolic subtags',
    outside="the language-identifier part (C02/C13); bodies longer than the frames; subtag lengths 6 and 7 (same class as 5 and 8 in every length test of the code); duplicate keys (outside the property); fully symbolic -t- keys, and everything through the whole extension map - symbolic composition frames and even the concrete probe [u,foo,u,bar] gave no result in 15-30 min (DESIGN 10) - so 'repeated singleton', 'u/t in either order' and 'misplaced subtag after an extension' are NOT decided, and the three-line glue of parse_locale only by C13's thorough byte-level harness",
)

PROPS["C04"] = P(
    jobs=[
        J("c04_subtag_display", unwind=6, uw=mk(FMT2, VAL_UW), desc="Display/as_str of every valid subtag of the four types == reference text"),
        J("c04_langid_display_v0", unwind=6, uw=mk(FMT2, VAL_UW), desc="to_string of any langid without variants == reference serialiser; strict recogniser accepts", weight=2),
        J("c04_langid_display_v2", unwind=6, uw=mk(FMT2, VAL_UW), desc="same with 0..2 variants", weight=3, mem_gb=12),
        J("c04_u_built_attrs", unwind=6, uw=mk(FMT2, C10_UW), stubs=INSREM + EXT_STUBS + STR_STUBS, desc="Display of a -u- list built in place by two set_attribute calls with arbitrary arguments (0..2 attributes, any order / equal) == reference serialisation", weight=3, mem_gb=16, cbmc=NOPTR),
        J("c04_u_built_kw", tier="x", unwind=6, uw=mk(FMT2, {r"kv_|from_iter|extend|filter_map|FilterMap|GenericShunt|try_fold|try_for_each": 6}, C10_UW), stubs=INSREM + EXT_STUBS + STR_STUBS, desc="same plus one set_keyword (key any 2 bytes, 0..2 types of any bytes): attributes, then key and types", weight=4, mem_gb=24, cbmc=NOPTR),
        J("c04_t_built", tier="x", unwind=6, uw=mk(FMT2, {r"kv_|from_iter|extend|filter_map|FilterMap|GenericShunt|try_fold|try_for_each": 6}, C10_UW, VAL_UW), stubs=TLIST_STUBS + STR_STUBS, desc="Display of a -t- list built in place: optional tlang (language-region), optional field (key any 2 bytes, 0..2 values)", weight=4, mem_gb=24, cbmc=NOPTR),
        J("c04_locale_built", tier="x", unwind=6, uw=mk(FMT2, {r"kv_|from_iter|extend|filter_map|FilterMap|GenericShunt|try_fold|try_for_each": 6}, C10_UW, VAL_UW), stubs=INSREM + TLIST_STUBS + STR_STUBS, desc="whole Locale built in place (language-region id, one attribute, one tfield, one private tag, all arguments arbitrary): id, then t, u, x", weight=5, mem_gb=30, cbmc=NOPTR),
        J("c04_u_display_3_3", tier="x", unwind=6, uw=mk(FMT2, xuw(2)), stubs=EXT_STUBS + STR_STUBS, desc="Display of a -u- list parsed from [S(3),S(3)] (two attributes, any order / equal) == reference serialisation", weight=3, mem_gb=16, cbmc=NOPTR),
        J("c04_u_display_3_2_4", tier="x", unwind=6, uw=mk(FMT2, xuw(3)), stubs=EXT_STUBS + STR_STUBS, desc="-u- list from [S(3),S(2),S(4)] (attribute, key, type)", weight=4, mem_gb=24, cbmc=NOPTR),
        J("c04_u_display_2_3_2_3", tier="x", unwind=6, uw=mk(FMT2, xuw(4)), stubs=EXT_STUBS + STR_STUBS, desc="-u- list with two keywords (key order in the output)", weight=5, mem_gb=40, cbmc=NOPTR, timeout_t=5400),
        J("c04_t_display_2_3", tier="x", unwind=6, uw=mk(FMT2, xuw(2)), stubs=TLIST_STUBS + STR_STUBS, desc="Display of a -t- list parsed from [S(2),S(3)] (tlang+region / tlang+? / key+value)", weight=4, mem_gb=30, cbmc=NOPTR),
        J("c04_t_display_2_2_2_3", tier="x", unwind=6, uw=mk(FMT2, xuw(4)), stubs=TLIST_STUBS + STR_STUBS, desc="-t- list with tlang-region and one field", weight=5, mem_gb=40, cbmc=NOPTR, timeout_t=5400),
        J("c04_x_display_2", unwind=6, uw=mk(FMT2, xuw(2)), stubs=EXT_STUBS + STR_STUBS, desc="Display of private tags parsed from 2 x T9", weight=2, mem_gb=12, cbmc=NOPTR),
        J("c04_locale_display", tier="x", unwind=6, uw=mk(FMT2, xuw(2), VAL_UW), stubs=TLIST_STUBS + STR_STUBS, desc="whole Locale (language-region id, one -t- element, one -u- attribute, one private tag): order id, t, u, x", weight=5, mem_gb=40, cbmc=NOPTR, timeout_t=5400),
        J("c04_canonicalize_tokens_2", unwind=6, uw=mk(FMT2, tok_uw(2)), stubs=PARSER_STUBS, desc="token-level canonicalize on 2 x T9: string == reference canonicalisation, not longer than input", weight=3, mem_gb=12),
        J("c04_canonicalize_tokens_3", tier="t", unwind=6, uw=mk(FMT2, tok_uw(3)), stubs=PARSER_STUBS, desc="3 x T9", weight=4, mem_gb=16),
    ],
    bounds='quick: Display of every valid subtag; to_string of any language identifier with 0..2 variants vs reference serialiser + strict recogniser; token-level canonicalize on 2 fully symbolic subtags; -u- list built in place by two set_attribute calls with arbitrary arguments; private tags parsed from 2 fully symbolic subtags. thorough adds: canonicalize on 3 subtags',
    outside='values with more than 2 variants / attributes; Display of keywords, tlang and tfields (the in-place-built harnesses c04_u_built_kw / c04_t_built gave no result in 17 min: not decided); a whole Locale in one string (extension order t, u, x: the three lists are decided separately, their concatenation in ExtensionsMap::fmt is one write! and is not under the solver); ExtensionsMap::other populated by hand; Display of parser results that carry maps (B-tree roots of merged parser results, DESIGN 10)',
)
PROPS["C05"] = P(
    jobs=[
        J("c05_subtag_roundtrip", unwind=6, uw=mk(FMT2, VAL_UW), desc="from_str(to_string(x)) == x for every valid subtag of the four types", weight=2),
        J("c05_langid_reparse_ls", unwind=6, uw=mk(FMT2, tok_uw(2), VAL_UW), stubs=PARSER_STUBS, desc="any language-script identifier: its own printed subtags re-parse to an equal value", weight=2, mem_gb=12),
        J("c05_langid_reparse_lv", unwind=6, uw=mk(FMT2, tok_uw(2), VAL_UW), stubs=PARSER_STUBS, desc="any language-variant identifier", weight=2, mem_gb=12),
        J("c05_langid_reparse_lsrv", unwind=6, uw=mk(FMT2, tok_uw(4), VAL_UW), stubs=PARSER_STUBS, desc="any language-script-region-variant identifier", weight=4, mem_gb=24),
        J("c05_langid_reparse_lrvv", tier="t", unwind=6, uw=mk(FMT2, tok_uw(4), VAL_UW), stubs=PARSER_STUBS, desc="language-region with two variants", weight=4, mem_gb=30),
        J("c05_langid_reparse_lsrvv", tier="t", unwind=6, uw=mk(FMT2, tok_uw(5), VAL_UW), stubs=PARSER_STUBS, desc="language-script-region with two variants", weight=5, mem_gb=40),
        J("c05_canonicalize_idempotent_2", unwind=6, uw=mk(FMT2, tok_uw(2)), stubs=PARSER_STUBS, desc="2 x T9: canonical form re-parses to the same value", weight=3, mem_gb=12),
    ],
    bounds="every valid subtag of the four types through to_string + FromStr (end to end); language identifiers of the shapes language-script, language-variant, language-script-region-variant (quick) and language-region-variant-variant, language-script-region-variant-variant (thorough): the serialiser's own subtags (as_str of each field in Display order; C04 decides that Display is exactly their '-' join) re-parsed by the real token-level entry give an equal value; canonicalize idempotence on 2 fully symbolic subtags",
    outside="Locale / ExtensionsMap round trips (the re-parse of an extension body is covered through C03's frames and C04's built values separately, not as one composed round trip); the split of a symbolic-length string (byte level is C02's subject)",
)

PROPS["C09"] = P(
    jobs=[
        J("c09_case_1", unwind=6, uw=mk(tok_uw(1), {r"recase|c09::": 10}), stubs=PARSER_STUBS, desc="1 x T9 vs the same subtag under a symbolic letter-case mask"),
        J("c09_case_2", unwind=6, uw=mk(tok_uw(2), {r"recase|c09::": 10}), stubs=PARSER_STUBS, desc="2 x T9 under a symbolic case mask", weight=3, mem_gb=12),
        J("c09_case_3", tier="t", unwind=6, uw=mk(tok_uw(3), {r"recase|c09::": 10}), stubs=PARSER_STUBS, desc="3 x T9 under a symbolic case mask", weight=4, mem_gb=20),
        J("c09_variant_order", tier="x", unwind=6, uw=mk(tok_uw(4), {r"c09::": 10}), stubs=PARSER_STUBS, desc="[L,V1,V2] vs [L,V2,V1] vs [L,V1,V2,V1], all T9", weight=5, mem_gb=40),
        J("c09_attr_order", unwind=6, uw=mk({r"c09::|recase": 10}, xuw(3)), stubs=EXT_STUBS, desc="-u- attributes [A1,A2] vs [A2,A1] (order), A1/A2 any 3 bytes; compared through attributes()", weight=3, mem_gb=16, cbmc=NOPTR),
        J("c09_attr_repeat", unwind=6, uw=mk({r"c09::|recase": 10}, xuw(3)), stubs=EXT_STUBS, desc="-u- attributes [A1,A2] vs [A1,A2,A1] (repetition), A1/A2 any 3 bytes; compared through attributes()", weight=3, mem_gb=16, cbmc=NOPTR),
        J("c09_sep_concrete", unwind=13, uw=mk({r"Split|position|c09::": 13}, tok_uw(3)), stubs=PARSER_STUBS, desc="the four '-'/'_' spellings of 'en-US-macos' through from_bytes (finite, enumerated)", weight=2),
        J("c09_u_case_3", unwind=6, uw=mk({r"c09::|recase": 10}, xuw(1)), stubs=EXT_STUBS, desc="-u- body [S(3)] under a symbolic case mask", weight=2, mem_gb=12, cbmc=NOPTR),
        J("c09_u_case_2_3", tier="t", unwind=6, uw=mk({r"c09::|recase": 10}, xuw(2)), stubs=EXT_STUBS, desc="-u- body [S(2),S(3)] under a symbolic case mask", weight=4, mem_gb=24, cbmc=NOPTR),
        J("c09_t_case_2_3", tier="x", unwind=6, uw=mk({r"c09::|recase": 10}, xuw(2)), stubs=TLIST_STUBS, desc="-t- body [S(2),S(3)] under a symbolic case mask", weight=5, mem_gb=40, cbmc=NOPTR),
        J("c09_keyword_order", tier="x", unwind=6, uw=mk({r"c09::|recase": 10}, xuw(4)), stubs=EXT_STUBS, desc="-u- keywords [k1,v1,k2,v2] vs [k2,v2,k1,v1], distinct keys (two map entries)", weight=5, mem_gb=40, cbmc=NOPTR, timeout_t=5400),
        J("c09_tfield_order", tier="x", unwind=6, uw=mk({r"c09::|recase": 10}, xuw(4)), stubs=TLIST_STUBS, desc="-t- fields [k1,v1,k2,v2] vs [k2,v2,k1,v1], distinct keys", weight=5, mem_gb=40, cbmc=NOPTR, timeout_t=5400),
        J("c09_sep_langid", tier="x", unwind=18, uw=mk({r"Split|position|c09::": 18}, tok_uw(3)), stubs=PARSER_STUBS, desc="'en?Latn?US?macos' with every ? either '-' or '_' vs the all-'-' spelling, through from_bytes", weight=3, mem_gb=16),
        J("c09_separators_4", tier="x", unwind=8, uw=mk({r"Split|position|c09::": 7}, tok_uw(5)), stubs=PARSER_STUBS, desc="every byte string <= 4 bytes with '-'/'_' exchanged under a symbolic mask, through from_bytes", weight=4, mem_gb=16),
    ],
    bounds="quick: letter case on 1..2 fully symbolic subtags of a language identifier (symbolic case mask per subtag) and on the -u- frame [3]; order and repetition of two -u- attributes (any 3 bytes each); the four separator spellings of 'en-US-macos'. thorough adds: case on 3 subtags and on the -u- frame [2,3]",
    outside='order / repetition of variant subtags as a metamorphic pair (out of memory at 24 GB; the canonical sorted-unique form is decided against the reference in C02 / C17 instead); order of -u- keywords / -t- fields with distinct keys, case inside -t- bodies, relative order of the -u- and -t- extensions (all need two map entries or the whole extension map: measured out of reach); symbolic separators in a full identifier (byte level, C02 thorough); to_string() equality is implied by value equality + C12 (x == y iff same string)',
)
PROPS["C10"] = P(
    jobs=[
        J("c10_attr_history_2", unwind=6, uw=C10_UW, stubs=INSREM + ["<[tinystr::TinyAsciiStr<8>]>::sort_unstable"], desc="attribute set: all histories of 2 symbolic ops (set/remove/has/clear) with T9 arguments vs sorted-set model", weight=2, mem_gb=12, cbmc=NOPTR),
        J("c10_attr_history_3", tier="q", unwind=6, uw=C10_UW, stubs=INSREM + ["<[tinystr::TinyAsciiStr<8>]>::sort_unstable"], desc="histories of 3 ops", weight=4, mem_gb=24, cbmc=NOPTR),
        J("c10_attr_inductive", unwind=6, uw=C10_UW, stubs=INSREM + EXT_STUBS, desc="attribute set: ONE symbolic op from an arbitrary pre-state satisfying the representation invariant (0..3 valid normalised attributes, strictly increasing; raw constructor hook) vs the model - an inductive step covering histories of any length over states of <= 3 elements", weight=3, mem_gb=16, cbmc=NOPTR),
        J("c10_tag_inductive", unwind=6, uw=C10_UW, stubs=INSREM + EXT_STUBS, desc="private tags: one symbolic op from an arbitrary sorted multiset of 0..3 valid tags", weight=3, mem_gb=16, cbmc=NOPTR),
        J("c10_tag_history_2", unwind=6, uw=C10_UW, stubs=INSREM + EXT_STUBS, desc="private tags: all histories of 2 symbolic ops (add/remove/has/clear) vs sorted-multiset model", weight=2, mem_gb=12, cbmc=NOPTR),
        J("c10_tag_history_3", tier="q", unwind=6, uw=C10_UW, stubs=INSREM + EXT_STUBS, desc="histories of 3 ops", weight=4, mem_gb=24, cbmc=NOPTR),
        J("c10_kw_history_1", unwind=6, uw=mk({r"kv_|from_iter|extend|filter_map|FilterMap|GenericShunt|try_fold|try_for_each": 6}, C10_UW), stubs=EXT_STUBS, desc="keywords: one symbolic op (set with 0..2 values / remove / get / clear), key and values T9, vs ordered-map model", weight=3, mem_gb=16, cbmc=NOPTR),
        J("c10_kw_history_2", tier="x", unwind=6, uw=mk({r"kv_|from_iter|extend|filter_map|FilterMap|GenericShunt|try_fold|try_for_each": 6}, C10_UW), stubs=EXT_STUBS, desc="keywords: histories of 2 ops (may hold two keys)", weight=5, mem_gb=40, cbmc=NOPTR, timeout_t=5400),
        J("c10_tf_history_1", unwind=6, uw=mk({r"kv_|from_iter|extend|filter_map|FilterMap|GenericShunt|try_fold|try_for_each": 6}, C10_UW), stubs=TLIST_STUBS, desc="tfields: one symbolic op vs ordered-map model", weight=3, mem_gb=16, cbmc=NOPTR),
        J("c10_tf_history_2", tier="x", unwind=6, uw=mk({r"kv_|from_iter|extend|filter_map|FilterMap|GenericShunt|try_fold|try_for_each": 6}, C10_UW), stubs=TLIST_STUBS, desc="tfields: histories of 2 ops", weight=5, mem_gb=40, cbmc=NOPTR, timeout_t=5400),
        J("c10_tlang_ops", unwind=6, uw=mk(VAL_UW, C10_UW), desc="set_tlang / replace / clear_tlang with any identifier (<=1 variant)", weight=2),
        J("c10_variants_0", unwind=6, uw=mk(VEC_UW, VAL_UW, C10_UW), stubs=VEC_STUBS, desc="set_variants(&[]) on any langid; has_variant; clear_variants", weight=2),
        J("c10_variants_2", unwind=6, uw=mk(VEC_UW, VAL_UW, C10_UW), stubs=VEC_STUBS, desc="set_variants with 2 symbolic variants (any order/dup); has_variant; clear_variants", weight=3, mem_gb=12),
        J("c10_variants_3", tier="t", unwind=6, uw=mk(VEC_UW, VAL_UW, C10_UW), stubs=VEC_STUBS, desc="3 symbolic variants", weight=4, mem_gb=16),
    ],
    bounds='per component, compared with a sorted-array set / multiset / ordered-map model after every step: attributes and private tags - all histories of 2 and 3 symbolic operations from the default state AND one symbolic operation from an arbitrary pre-state satisfying the representation invariant (0..3 elements; inductive step); keywords and tfields - one symbolic operation (set with 0..2 values / remove / get / clear) from the default state; tlang set / replace / clear; set_variants with 0, 2 (quick) or 3 (thorough) symbolic variants, has_variant, clear_variants; every argument a fully symbolic subtag (valid, boundary and invalid arguments alike)',
    outside='collections of more than 4 elements (checked capacity of the std models); keyword / tfield histories of two or more operations (measured out of reach: 7 M steps, out of memory at 40 GB), hence states holding two keys; maximize/minimize steps (C07/C08); to_string / re-parse after each step (C04/C05 on the same value shapes); cross-component interleavings on one Locale',
)

PROPS["C19"] = P(
    jobs=[
        J("c19_serialize_canonical", cfg="serde", unwind=6, uw=mk({r"c19::|Cap": 50}, FMT2, VAL_UW), stubs=STR_STUBS, desc="Serialize of any langid (<=1 variant) through a capturing Serializer == reference canonical string", weight=2, mem_gb=12),
        J("c19_serialize_canonical_v2", cfg="serde", unwind=6, uw=mk({r"c19::|Cap": 50}, FMT2, VAL_UW), stubs=STR_STUBS, desc="language-script-region with two variants (text up to 35 bytes)", weight=3, mem_gb=16),
        J("c19_deserialize_str_1", tier="t", cfg="serde", unwind=4, uw=mk({r"Split|position|c19::|sep_frame": 3}, tok_uw(1)), stubs=PARSER_STUBS, desc="Deserialize(visit_str(s)) vs s.parse() for every 1-byte ASCII string", weight=2, mem_gb=30),
        J("c19_deserialize_concrete", cfg="serde", unwind=13, uw=mk({r"Split|position|c19::|sep_frame": 12}, tok_uw(3)), stubs=PARSER_STUBS, desc="the concrete string 'en-Latn-US' through Deserialize and FromStr (reachability of the success path)", weight=1, need_cover=False),
        J("c19_deserialize_lead", tier="x", cfg="serde", unwind=6, uw=mk({r"Split|position|c19::|sep_frame": 5}, tok_uw(2)), stubs=PARSER_STUBS, desc="Deserialize(visit_str(s)) vs s.parse() on '?en', ? any ASCII byte (leading padding / separator)", weight=2, mem_gb=12),
        J("c19_deserialize_trail", tier="x", cfg="serde", unwind=6, uw=mk({r"Split|position|c19::|sep_frame": 5}, tok_uw(2)), stubs=PARSER_STUBS, desc="same on 'en?'", weight=2, mem_gb=12),
        J("c19_deserialize_lead_trail", tier="x", cfg="serde", unwind=10, uw=mk({r"Split|position|c19::|sep_frame": 9}, tok_uw(4)), stubs=PARSER_STUBS, desc="same on '?en-US?'", weight=4, mem_gb=24),
        J("c19_deserialize_frame", tier="x", cfg="serde", unwind=7, uw=mk({r"Split|position|c19::": 7}, tok_uw(1)), stubs=PARSER_STUBS, desc="Deserialize(visit_str(s)) vs s.parse() on 'en?US', ? any ASCII byte", weight=3, mem_gb=16),
        J("c19_deserialize_str_2", tier="x", cfg="serde", unwind=5, uw=mk({r"Split|position|c19::": 4}, tok_uw(2)), stubs=PARSER_STUBS, desc="Deserialize(visit_str(s)) vs s.parse() for every 2-byte ASCII string", weight=3, mem_gb=16),
        J("c19_deserialize_str_3", tier="x", cfg="serde", unwind=7, uw=mk({r"Split|position|c19::": 6}, tok_uw(4)), stubs=PARSER_STUBS, desc="Deserialize(visit_str(s)) vs s.parse() for every ASCII string of <= 3 bytes", weight=3, mem_gb=12),
        J("c19_non_string_rejected", cfg="serde", unwind=6, desc="bool / u64 / i64 / f64 / unit / none / bytes inputs: Err, no panic"),
    ],
    bounds="Serialize of any language identifier with <= 1 variant and of language-script-region with two variants (text up to 35 bytes) through a capturing Serializer; every non-string kind (bool, u64, i64, f64, unit, none, bytes) through Deserialize; the concrete string 'en-Latn-US' through Deserialize and FromStr (quick). thorough: Deserialize(visit_str(s)) vs s.parse() on every 1-byte ASCII string",
    outside="serde_json's tokenizer / escapes and serde_json::Value (third-party code); visit_str on strings of 2+ symbolic bytes (two byte-level parses in one query: the frames '?en' / 'en?' ran out of memory after 27 min) - so beyond 1-byte strings the agreement of Deserialize with FromStr is decided only on one concrete string, and e.g. a whitespace-trimming visitor would not be noticed",
)

PROPS["C08"] = P(
    jobs=[
        J("c08_zh_full_meaning", unwind=6, uw=LK_UW, desc="minimize on (zh, script, region), every valid script and region both present: result within the input, one of the three shapes, maximizes back to the input", weight=3, mem_gb=16, cbmc=NOPTR),
        J("c08_zh_full_first", unwind=6, uw=LK_UW, desc="same inputs: the chosen form is the first of {language, language-region, language-script} that maximizes back; None only if none does", weight=3, mem_gb=46, cbmc=NOPTR, trace=False),
        J("c08_sr_full_meaning", unwind=6, uw=LK_UW, desc="(sr, script, region) both present: meaning", weight=3, mem_gb=16, cbmc=NOPTR),
        J("c08_sr_full_first", unwind=6, uw=LK_UW, desc="(sr, script, region) both present: first form", weight=3, mem_gb=16, cbmc=NOPTR),
        J("c08_en_full_first", unwind=6, uw=LK_UW, desc="(en, script, region) both present: first form", weight=3, mem_gb=16, cbmc=NOPTR),
        J("c08_qaa_first", unwind=6, uw=LK_UW, desc="(qaa, script?, region?): first-form clause for a language without CLDR entry", weight=2, mem_gb=16, cbmc=NOPTR),
        J("c08_zh_meaning", tier="q", unwind=6, uw=LK_UW, desc="minimize on (zh, script?, region?), every valid script/region: result within the maximised form, one of the three shapes, maximizes back to it", weight=3, mem_gb=28, cbmc=NOPTR),
        J("c08_zh_first", tier="q", unwind=6, uw=LK_UW, desc="minimize on (zh, script?, region?), every valid script/region: the chosen form is the first of {language, language-region, language-script} that maximizes back; None only if none does", weight=3, mem_gb=28, cbmc=NOPTR),
        J("c08_zh_idempotent", tier="q", unwind=6, uw=LK_UW, desc="minimize on (zh, script?, region?), every valid script/region: minimizing twice equals minimizing once", weight=3, mem_gb=28, cbmc=NOPTR),
        J("c08_zh_minmax", tier="q", unwind=6, uw=LK_UW, desc="minimize on (zh, script?, region?), every valid script/region: minimize(maximize(x)) == minimize(x)", weight=3, mem_gb=28, cbmc=NOPTR),
        J("c08_sr_meaning", tier="t", unwind=6, uw=LK_UW, desc="minimize on (sr, script?, region?), every valid script/region: result within the maximised form, one of the three shapes, maximizes back to it", weight=3, mem_gb=28, cbmc=NOPTR),
        J("c08_sr_first", tier="t", unwind=6, uw=LK_UW, desc="minimize on (sr, script?, region?), every valid script/region: the chosen form is the first of {language, language-region, language-script} that maximizes back; None only if none does", weight=3, mem_gb=28, cbmc=NOPTR),
        J("c08_sr_idempotent", tier="t", unwind=6, uw=LK_UW, desc="minimize on (sr, script?, region?), every valid script/region: minimizing twice equals minimizing once", weight=3, mem_gb=28, cbmc=NOPTR),
        J("c08_sr_minmax", tier="t", unwind=6, uw=LK_UW, desc="minimize on (sr, script?, region?), every valid script/region: minimize(maximize(x)) == minimize(x)", weight=3, mem_gb=28, cbmc=NOPTR),
        J("c08_en_meaning", tier="t", unwind=6, uw=LK_UW, desc="minimize on (en, script?, region?), every valid script/region: result within the maximised form, one of the three shapes, maximizes back to it", weight=3, mem_gb=28, cbmc=NOPTR),
        J("c08_en_first", tier="t", unwind=6, uw=LK_UW, desc="minimize on (en, script?, region?), every valid script/region: the chosen form is the first of {language, language-region, language-script} that maximizes back; None only if none does", weight=3, mem_gb=28, cbmc=NOPTR),
        J("c08_qaa_meaning", tier="q", unwind=6, uw=LK_UW, desc="minimize on (qaa, script?, region?), every valid script/region: result within the maximised form, one of the three shapes, maximizes back to it", weight=3, mem_gb=28, cbmc=NOPTR),
        J("c08_wrapper_zh", unwind=6, uw=mk(VAL_UW, LK_UW), desc="LanguageIdentifier::minimize wrapper: variants untouched, bool, unchanged on false (zh, <=1 variant)", weight=3, mem_gb=28, cbmc=NOPTR),
        J("c08_laws_und", tier="t", unwind=6, uw=LK_UW, desc="single-call laws of minimize for (und, script?, region?): result within the maximised form, one of the three shapes, maximizes back", **BIG),
        J("c08_wrapper_und", tier="t", unwind=6, uw=mk(VAL_UW, LK_UW), desc="LanguageIdentifier::minimize wrapper: variants untouched, bool, unchanged on false (und language)", **BIG),
        J("c08_laws_lang", tier="t", unwind=6, uw=LK_UW, desc="same laws for any non-empty language", **BIG),
    ],
    bounds="quick: the concrete languages zh, sr, en, qaa each with every valid (script?, region?) (all laws, including the two-call laws); thorough: every (und, script?, region?) and every valid (language, script?, region?) for the single-call laws",
    outside="two-call laws (idempotence, minimize after maximize) for arbitrary symbolic languages; comparison of the chosen form with the CLDR reference (the laws are checked on the library alone; C06 ties maximize to CLDR)",
)


def job(pid, name):
    for j_ in PROPS[pid].jobs:
        if j_.harness == name and j_.tier != "x":
            return j_
    raise KeyError(name)

def reuse(pid, name, tier=None):
    """the same harness under another property (Kani's panic / overflow / bounds / unwinding checks are on in every harness)"""
    import copy
    j_ = copy.copy(job(pid, name))
    if tier:
        j_.tier = tier
    return j_

PROPS["C01"] = P(
    jobs=[
        J("c01_langid_tokens_2", unwind=6, uw=tok_uw(2), stubs=PARSER_STUBS, desc="LanguageIdentifier::try_from_iter on 2 x T9, allow_extension symbolic: no panic, terminates", weight=2),
        J("c01_langid_tokens_3", tier="t", unwind=6, uw=tok_uw(3), stubs=PARSER_STUBS, desc="3 x T9", weight=3, mem_gb=12),
        J("c01_extmap_dispatch_1", unwind=6, uw=ext_uw(1), stubs=EXT_STUBS, desc="ExtensionsMap::try_from_iter on [T9] (any singleton, any byte)"),
        J("c01_ulist_1", unwind=6, uw=ext_uw(1), stubs=EXT_STUBS, desc="UnicodeExtensionList::try_from_iter on [T9]"),
        J("c01_tlist_1", tier="x", unwind=6, uw=ext_uw(1), stubs=EXT_STUBS, desc="TransformExtensionList::try_from_iter on [T9]", mem_gb=30, cbmc=NOPTR, weight=4),
        J("c01_plist_2", unwind=6, uw=ext_uw(2), stubs=EXT_STUBS, desc="PrivateExtensionList::try_from_iter on [T9,T9]"),
        J("c01_plist_3", unwind=6, uw=ext_uw(3), stubs=EXT_STUBS, desc="on [T9,T9,T9]", weight=2),
        J("c01_bytes_en_u_ca", tier="x", unwind=9, uw=glue_uw(7, 3), stubs=TLIST_STUBS, desc="LanguageIdentifier/Locale/ExtensionsMap::from_bytes on 'en?u?ca', every ? any byte", weight=4, mem_gb=24, cbmc=NOPTR),
        J("c01_bytes_x_a", tier="x", unwind=7, uw=glue_uw(5, 3), stubs=TLIST_STUBS, desc="the three from_bytes on '?x?a?'", weight=4, mem_gb=24, cbmc=NOPTR),
        # extension bodies on length-profiled frames, getters/setters with arbitrary arguments, table queries:
        # the harnesses of C02/C03/C10/C07/C14 run under C01 too
        reuse("C02", "c02_bytes_len1"), reuse("C02", "c02_tokens_2"), reuse("C02", "c02_bytes_len2", "t"),
        reuse("C03", "c03_u_2_3_9"), reuse("C03", "c03_u_8_2_4"), reuse("C03", "c03_u_3_0"), reuse("C03", "c03_u_9"), reuse("C03", "c03_u_1"),
        reuse("C03", "c03_t_3"), reuse("C03", "c03_x_3"),
        reuse("C10", "c10_attr_history_2"), reuse("C10", "c10_tag_history_2"), reuse("C10", "c10_kw_history_1"), reuse("C10", "c10_tf_history_1"),
        reuse("C07", "c07_laws_und"), reuse("C14", "c14_script_decides@nolikely") if False else reuse("C07", "c07_wrapper_und"),
    ],
    bounds="token level: language-identifier entry on 2 (quick) / 3 (thorough) subtags, each " + T9 + ", allow_extension symbolic; extension dispatcher and -u- body on one T9, -x- body on 2..3 T9, -t- body on the frame [3]; extension bodies on the length-profiled frames of C03; every extension getter/setter with T9 arguments on the default state and after one symbolic operation (C10 harnesses); byte level: every string of <= 1 byte (quick) / 2 bytes (thorough) through LanguageIdentifier::from_bytes; maximize for every (und, script?, region?)",
    outside="subtags longer than 9 bytes; inputs with more subtags than the frames; allocation failure; FromStr (same code path as from_bytes on as_bytes()); minimize and the 7143-row table (thorough tiers of C06/C08); stack depth (the call graph has no recursion: CBMC reports recursion as an unwinding obligation and none appears)",
)


def under(cfg, pid, name, tier="q"):
    import copy
    j_ = copy.copy(job(pid, name))
    j_.cfg = cfg
    j_.tier = tier
    return j_

# harnesses that assert exact agreement with a feature-independent reference (or a law of the library alone)
C20_SET = [("C15", "c15_language_exact"), ("C15", "c15_script_exact"), ("C15", "c15_region_exact"), ("C15", "c15_variant_exact"),
           ("C02", "c02_tokens_2"), ("C04", "c04_langid_display_v0"), ("C11", "c11_langid_formula_v1"), ("C12", "c12_langid_eq_ord_v1"),
           ("C10", "c10_attr_history_2"), ("C10", "c10_variants_2"), ("C03", "c03_u_2_3"), ("C13", "c13_superset_1"), ("C12", "c12_langid_eq_str"), ("C12", "c12_eq_str_near_misses")]
_c20 = []
for cfg_ in FACADE_CFGS:
    quick_cfg = cfg_ in ("facade_none", "facade_likel_serde_macro")
    for pid_, name_ in C20_SET:
        _c20.append(under(cfg_, pid_, name_, "q" if quick_cfg else "t"))
PROPS["C20"] = P(
    jobs=_c20,
    bounds="the exact-reference harnesses " + ", ".join(n for _, n in C20_SET) + " rebuilt through the facade crates unic-langid / unic-locale with no features and with all of {likelysubtags, serde, macros} (quick) and under all 8 feature subsets (thorough); each verifies against the same feature-independent reference, hence the configurations agree with each other on every input within the harness bounds",
    outside="behaviour not covered by an exact-reference harness (error Display text, Debug output); character_direction (feature-indexed by design, C14)",
)
