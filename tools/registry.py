"""Which harnesses decide which property, in which tier, under which bounds.

Harness source: /verif/harness/src/cNN.rs.  Every bound named here is *checked*
(unwinding assertions stay on), so a wrong number shows up as an unwinding
failure, never as silent truncation.
"""
import os, sys
sys.path.insert(0, os.path.dirname(os.path.abspath(__file__)))
import presteps

UNWIND_CAP = 64

# (regex on the loop's pretty function name, bound) — first match wins; DESIGN 2.2
UNWIND_RULES = [
    (r"^memcmp$", 10),
    (r"tinystr::", 10),
    (r"core::slice::cmp|chaining_impl|equal_same_length|SlicePartialEq|SlicePartialOrd|SliceOrd", 10),
    (r"^(vh::)?spec::", 10),
    (r"^(vh::)?sym::", 10),
    (r"^(vh::)?k::bytes", 10),
    (r"binary_search", 15),
]

CFGS = {
    # harness crate with likelysubtags on (the configuration the facade crates' tests use)
    "std": {"crate": "harness", "features": ["likelysubtags"]},
    "nolikely": {"crate": "harness", "features": []},
    "serde": {"crate": "harness", "features": ["likelysubtags", "serde"]},
}

GLOBAL_ASSUMPTIONS = [
    "Kani 0.68 / CBMC 6.11 / CaDiCaL are sound for the dev-profile MIR they are given (overflow checks on)",
    "allocation never fails (--no-malloc-may-fail)",
    "every loop bound is enforced by an unwinding assertion; results say nothing beyond the stated input bounds",
]


class J:
    def __init__(self, harness, tier="q", cfg="std", unwind=10, uw=None, cbmc=None, mem_gb=8, timeout_q=1800,
                 timeout_t=7200, stubs=None, desc="", weight=1, need_cover=True):
        self.harness, self.tier, self.cfg, self.unwind = harness, tier, cfg, unwind
        self.uw, self.cbmc, self.mem_gb = uw, cbmc, mem_gb
        self.timeout_q, self.timeout_t, self.stubs, self.desc = timeout_q, timeout_t, stubs, desc
        self.weight, self.need_cover = weight, need_cover


class P:
    def __init__(self, jobs, bounds, outside, assumptions=None, pre=None):
        self.jobs, self.bounds, self.outside = jobs, bounds, outside
        self.assumptions = assumptions or []
        self.pre = pre or []


T9 = "one subtag = 9 bytes of storage, length 0..=9 symbolic, every byte 0x00-0xFF symbolic"

PROPS = {}

PROPS["C15"] = P(
    jobs=[
        J("c15_language_exact", desc="Language::from_bytes vs UTS#35 production on " + T9),
        J("c15_script_exact", desc="Script::from_bytes on " + T9),
        J("c15_region_exact", desc="Region::from_bytes on " + T9),
        J("c15_variant_exact", desc="Variant::from_bytes on " + T9),
    ],
    bounds="every byte string of length 0..=9 per subtag constructor (all 256 values per byte)",
    outside="subtags longer than 9 bytes (the only length-dependent code is `len > N` in TinyAsciiStr::from_bytes_inner)",
)

PARSER_STUBS = ["std::vec::Vec::push", "<[unic_langid_impl::subtags::Variant]>::sort_unstable", "std::vec::Vec::into_boxed_slice"]
# loops of the repo's own parser and of std iterator adaptors: one iteration per token (+1 to leave)
def tok_uw(k):
    return {r"parse_language_identifier_from_iter": k + 2, r"array::|from_fn|try_from_fn|iter_next_unchecked|drain_array": k + 2,
            r"stubs::(sort_unstable|push|to_vec)": 6, r"dedup": 6, r"h::": 6}

PROPS["C02"] = P(
    jobs=[
        J("c02_tokens_1", unwind=6, uw=tok_uw(1), stubs=PARSER_STUBS, desc="LanguageIdentifier::try_from_iter(.., false) on 1 x T9 vs reference recogniser/canonicaliser"),
        J("c02_tokens_2", unwind=6, uw=tok_uw(2), stubs=PARSER_STUBS, desc="2 x T9", weight=2),
        J("c02_tokens_3", unwind=6, uw=tok_uw(3), stubs=PARSER_STUBS, desc="3 x T9", weight=3),
        J("c02_tokens_4", tier="t", unwind=6, uw=tok_uw(4), stubs=PARSER_STUBS, desc="4 x T9", weight=4, mem_gb=12),
    ],
    bounds="token level: 1..3 (quick) / 1..4 (thorough) subtags, each " + T9,
    outside="identifiers with more than 4 subtags; subtags longer than 9 bytes; the push/sort/into_boxed_slice models of std (DESIGN 2.3)",
)
