"""Steps a property run performs before codegen (reference data re-derived from /repo, reference model
validated against the repo's own fixtures).  Each returns a JSON-able dict recorded in evidence."""
