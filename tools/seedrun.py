#!/usr/bin/env python3
"""Developer aid: run checks against a seeded change WITHOUT touching /repo, so several seeds can be
tried in parallel.  For each run a scratch git worktree of /repo gets the seed's patch, and a scratch
copy of /verif gets its harness crates' path dependencies pointed at that worktree; the ordinary
runner (tools/check.py) is then started there with VERIF_REPO set.  Nothing is written to /verif/evidence.

    tools/seedrun.py <seed-id> <PROP> [--tier quick|thorough] [--only a,b,c]

Prints the runner's verdict lines and exits with the runner's exit code (1 = VIOLATION reported, i.e. the
seed is caught; 0 = missed; 2 = inconclusive).  The registered way (git -C /repo apply; check; git checkout)
is tools/seedtest.sh; both run the same check code.
"""
import argparse, os, shutil, subprocess, sys, re

ap = argparse.ArgumentParser()
ap.add_argument("seed")
ap.add_argument("prop")
ap.add_argument("--tier", default="quick")
ap.add_argument("--only", default=None)
a = ap.parse_args()

VERIF = os.path.dirname(os.path.dirname(os.path.abspath(__file__)))
root = "/var/tmp/seedrun-%s-%s-%d" % (a.seed, a.prop, os.getpid())
repo = os.path.join(root, "repo")
verif = os.path.join(root, "verif")
os.makedirs(root)
rc = 3
try:
    subprocess.run(["git", "-C", "/repo", "worktree", "add", "--detach", repo, "HEAD"], check=True, capture_output=True)
    patch = os.path.join(VERIF, "seeded", a.seed, "patch.diff")
    r = subprocess.run(["git", "-C", repo, "apply", patch], capture_output=True, text=True)
    if r.returncode != 0:
        print("PATCH-DOES-NOT-APPLY", r.stderr)
        sys.exit(3)
    if not os.path.exists(os.path.join(repo, "Cargo.lock")):
        shutil.copy("/repo/Cargo.lock", os.path.join(repo, "Cargo.lock"))  # untracked in /repo
    shutil.copytree(VERIF, verif, ignore=shutil.ignore_patterns(".git", "target", "evidence", "replays", "__pycache__", "seeded"))
    for crate in ("harness", "harness_facade"):
        p = os.path.join(verif, crate, "Cargo.toml")
        s = open(p).read().replace('"/repo/', '"%s/' % repo)
        open(p, "w").write(s)
    env = dict(os.environ)
    env["VERIF_REPO"] = repo
    env["VERIF_SCRATCH"] = root
    cmd = [sys.executable, os.path.join(verif, "tools", "check.py"), a.prop, "--tier", a.tier, "--no-evidence"]
    if a.only:
        cmd += ["--only", a.only]
    p = subprocess.run(cmd, cwd=verif, env=env, capture_output=True, text=True)
    rc = p.returncode
    open('/tmp/seedrun-%s-%s.out' % (a.seed, a.prop), 'w').write(p.stdout + p.stderr)
    if rc == 2 and "Traceback" in (p.stdout + p.stderr):
        print((p.stdout + p.stderr)[-3000:])
    keep = [l for l in p.stdout.splitlines() if re.search(r"VIOLATION|KNOWN-FINDING|INCONCLUSIVE|violation in|INPUT|  c\d\d_|verified within|MACHINERY", l)]
    print("\n".join(l[:400] for l in keep[-40:]))
    print("seedrun: seed=%s prop=%s only=%s exit=%d (%s)" % (a.seed, a.prop, a.only, rc, {0: "MISSED", 1: "CAUGHT", 2: "INCONCLUSIVE"}.get(rc, "?")))
finally:
    subprocess.run(["git", "-C", "/repo", "worktree", "remove", "--force", repo], capture_output=True)
    shutil.rmtree(root, ignore_errors=True)
    subprocess.run(["git", "-C", "/repo", "worktree", "prune"], capture_output=True)
sys.exit(rc)
