#!/usr/bin/env python3
"""Independent re-derivation of the reference tables from /repo's CLDR JSON files.

Own packer (strings -> little-endian integers of the canonical-case text), no code from
/repo.  Writes harness/src/gen/{likely,layout}.rs; returns a summary dict for evidence.
"""
import json, os, glob, re


def pack(s):
    return int.from_bytes(s.encode("ascii"), "little")


def canon_lang(s):
    return s.lower()


def canon_script(s):
    return s[0].upper() + s[1:].lower()


def canon_region(s):
    return s.upper()


def split_id(s):
    """language(-script)?(-region)? of a CLDR likelySubtags key/value -> (lang|None, script|None, region|None)"""
    parts = re.split(r"[-_]", s)
    lang = canon_lang(parts[0])
    if not re.fullmatch(r"[a-z]{2,3}|[a-z]{5,8}", lang):
        raise ValueError("bad language in %r" % s)
    script = region = None
    i = 1
    if i < len(parts) and re.fullmatch(r"[A-Za-z]{4}", parts[i]):
        script = canon_script(parts[i]); i += 1
    if i < len(parts) and re.fullmatch(r"[A-Za-z]{2}|[0-9]{3}", parts[i]):
        region = canon_region(parts[i]); i += 1
    if i != len(parts):
        raise ValueError("unexpected subtags in %r" % s)
    return (None if lang == "und" else lang), script, region


def derive(repo):
    d = json.load(open(os.path.join(repo, "unic-langid-impl/data/likelySubtags.json")))
    sup = d["supplemental"]
    version = sup["version"]["_cldrVersion"]
    tabs = {"LANG_ONLY": [], "LANG_REGION": [], "LANG_SCRIPT": [], "SCRIPT_REGION": [], "SCRIPT_ONLY": [], "REGION_ONLY": []}
    for k, v in sup["likelySubtags"].items():
        kl, ks, kr = split_id(k)
        vl, vs, vr = split_id(v)
        # the unknown region ZZ means "no region" in a value
        if vr == "ZZ":
            vr = None
        val = (pack(vl) if vl else None, pack(vs) if vs else None, pack(vr) if vr else None, v)
        if kl is None and ks is None and kr is None:
            tabs["LANG_ONLY"].append(((pack("und"),), val, k))
        elif kl and not ks and not kr:
            tabs["LANG_ONLY"].append(((pack(kl),), val, k))
        elif kl and not ks and kr:
            tabs["LANG_REGION"].append(((pack(kl), pack(kr)), val, k))
        elif kl and ks and not kr:
            tabs["LANG_SCRIPT"].append(((pack(kl), pack(ks)), val, k))
        elif not kl and ks and kr:
            tabs["SCRIPT_REGION"].append(((pack(ks), pack(kr)), val, k))
        elif not kl and ks:
            tabs["SCRIPT_ONLY"].append(((pack(ks),), val, k))
        elif not kl and kr:
            tabs["REGION_ONLY"].append(((pack(kr),), val, k))
        else:
            raise ValueError("unsupported key shape %r" % k)
    for t in tabs.values():
        t.sort(key=lambda e: e[0])
    return version, tabs


def derive_layout(repo):
    """(lang, script, region, order) per locale directory, plus the script / language sets"""
    rows = []
    for p in sorted(glob.glob(os.path.join(repo, "unic-langid-impl/data/cldr-misc-full/main/*/layout.json"))):
        d = json.load(open(p))
        (name, body), = d["main"].items()
        ident = body["identity"]
        order = body["layout"]["orientation"]["characterOrder"]
        rows.append({"name": name, "language": ident.get("language"), "script": ident.get("script"), "region": ident.get("territory"),
                     "variant": ident.get("variant"), "order": order})
    return rows


def opt(v, ty):
    return "None" if v is None else "Some(%d)" % v


RTL, LTR, TTB = "right-to-left", "left-to-right", "top-to-bottom"


def layout_model(repo, tabs):
    """Reference sets, derived from the layout files through likelySubtags the way CLDR defines a
    locale's script: a locale directory gives (language, script?, region?) -> characterOrder; the
    script of a script-less locale is the likely script of (language, region) / language."""
    rows = derive_layout(repo)
    def find(tab, key):
        for k, v, _ in tabs[tab]:
            if k == key:
                return v
        return None
    def likely_script(lang, region):
        if lang is None:
            return None
        v = None
        if region:
            v = find("LANG_REGION", (pack(lang), pack(region)))
        if v is None:
            v = find("LANG_ONLY", (pack(lang),))
        return v[1] if v else None
    script_dir = {}   # packed script -> order
    rtl_langs = set()
    per_lang = {}
    table = []
    for r in rows:
        lang = None if r["language"] in (None, "und", "root") else canon_lang(r["language"])
        script = canon_script(r["script"]) if r["script"] else None
        region = canon_region(r["region"]) if r["region"] else None
        # "a script that CLDR lists" = a script named by a locale directory's identity
        s = pack(script) if script else None
        if s is not None:
            prev = script_dir.setdefault(s, r["order"])
            if prev != r["order"]:
                raise ValueError("script with two directions: %r" % (r,))
        if lang:
            per_lang.setdefault(lang, set()).add(r["order"])
            if r["order"] == RTL:
                rtl_langs.add(lang)
        if r["language"] not in (None, "root"):
            table.append((pack(lang) if lang else 0, pack(script) if script else 0, pack(region) if region else 0,
                          {LTR: 0, RTL: 1, TTB: 2}[r["order"]], r["name"], bool(r["variant"])))
    multi = sorted(l for l, o in per_lang.items() if len(o) > 1)
    return {"rows": table, "script_dir": script_dir, "rtl_langs": sorted(rtl_langs), "multi_dir_langs": multi,
            "all_langs": sorted(per_lang)}


def put(path, text):
    """atomic, and leaves the file untouched when unchanged (keeps cargo fingerprints, safe under concurrent runs)"""
    try:
        if open(path).read() == text:
            return
    except OSError:
        pass
    tmp = "%s.%d" % (path, os.getpid())
    open(tmp, "w").write(text)
    os.replace(tmp, path)


def write(repo, verif):
    version, tabs = derive(repo)
    gen = os.path.join(verif, "harness", "src", "gen")
    os.makedirs(gen, exist_ok=True)
    out = ["// generated by tools/cldr_ref.py from /repo/unic-langid-impl/data/likelySubtags.json on every run; do not edit",
           "// struct-of-arrays on purpose: no padded element types (DESIGN 2.6)",
           "#![allow(clippy::all)]",
           "pub const REF_CLDR_VERSION: &str = \"%s\";" % version]
    for name, rows in tabs.items():
        n = len(rows)
        kt = {"LANG_ONLY": ["u64"], "LANG_REGION": ["u64", "u32"], "LANG_SCRIPT": ["u64", "u32"], "SCRIPT_REGION": ["u32", "u32"],
              "SCRIPT_ONLY": ["u32"], "REGION_ONLY": ["u32"]}[name]
        for j, ty in enumerate(kt):
            out.append("pub static REF_%s_K%d: [%s; %d] = [%s];" % (name, j, ty, n, ", ".join(str(r[0][j]) for r in rows)))
        for j, (nm, ty) in enumerate((("VL", "u64"), ("VS", "u32"), ("VR", "u32"))):
            # 0 encodes an absent value subtag (never occurs in CLDR 44; C18 asserts the compiled tables agree)
            out.append("pub static REF_%s_%s: [%s; %d] = [%s];" % (name, nm, ty, n, ", ".join(str(r[1][j] or 0) for r in rows)))
    put(os.path.join(gen, "likely.rs"), "\n".join(out) + "\n")

    lm = layout_model(repo, tabs)
    sd = lm["script_dir"]
    o2 = ["// generated by tools/cldr_ref.py from /repo/unic-langid-impl/data/cldr-misc-full/main/*/layout.json; do not edit",
          "#![allow(clippy::all)]"]
    for nm, code in (("LTR", LTR), ("RTL", RTL), ("TTB", TTB)):
        xs = sorted(k for k, v in sd.items() if v == code)
        o2.append("pub static REF_SCRIPTS_%s: [u32; %d] = [%s];" % (nm, len(xs), ", ".join(map(str, xs))))
    xs = sorted(pack(l) for l in lm["rtl_langs"])
    o2.append("pub static REF_LANGS_RTL: [u64; %d] = [%s];" % (len(xs), ", ".join(map(str, xs))))
    xs = sorted(pack(l) for l in lm["multi_dir_langs"])
    o2.append("pub static REF_LANGS_MULTI_DIR: [u64; %d] = [%s];" % (len(xs), ", ".join(map(str, xs))))
    rows = lm["rows"]
    o2.append("/// one row per CLDR locale directory: language (0 = und), script (0 = none), region (0 = none), characterOrder (0 LTR, 1 RTL, 2 TTB)")
    o2.append("pub static REF_LAYOUT_L: [u64; %d] = [%s];" % (len(rows), ", ".join(str(r[0]) for r in rows)))
    o2.append("pub static REF_LAYOUT_S: [u32; %d] = [%s];" % (len(rows), ", ".join(str(r[1]) for r in rows)))
    o2.append("pub static REF_LAYOUT_R: [u32; %d] = [%s];" % (len(rows), ", ".join(str(r[2]) for r in rows)))
    o2.append("pub static REF_LAYOUT_D: [u8; %d] = [%s];" % (len(rows), ", ".join(str(r[3]) for r in rows)))
    put(os.path.join(gen, "layout.rs"), "\n".join(o2) + "\n")
    put(os.path.join(gen, "mod.rs"), "pub mod layout;\npub mod likely;\n")
    return {"cldr_version": version, "entries": {k: len(v) for k, v in tabs.items()}, "total_entries": sum(len(v) for v in tabs.values()),
            "layout_rows": len(rows), "scripts": {k: sum(1 for v in sd.values() if v == c) for k, c in (("ltr", LTR), ("rtl", RTL), ("ttb", TTB))},
            "rtl_languages": len(lm["rtl_langs"]), "multi_direction_languages": lm["multi_dir_langs"]}


if __name__ == "__main__":
    import sys
    print(write(sys.argv[1] if len(sys.argv) > 1 else "/repo", os.path.dirname(os.path.dirname(os.path.abspath(__file__)))))
